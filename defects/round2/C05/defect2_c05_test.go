package unused

// Defect demonstrations for property C05 (method rename rewrites exactly the
// renamed identifier tokens: the declaration and every attributed call).
//
// Copy to: pkg/application/refactor/rename/defect2_c05_test.go
// Run:     go test -vet=off -count=1 ./pkg/application/refactor/rename/ -run TestDefect2_C05

import (
	"fmt"
	"io/ioutil"
	"os"
	"path/filepath"
	"sort"
	"strings"
	"testing"

	"github.com/modernizing/coca/pkg/application/analysis/javaapp"
	"github.com/modernizing/coca/pkg/domain/core_domain"
)

func d2c05Analyse(dir string) []core_domain.CodeDataStruct {
	identifierApp := new(javaapp.JavaIdentifierApp)
	identifiers := identifierApp.AnalysisPath(dir)
	callApp := javaapp.NewJavaFullApp()
	return callApp.AnalysisPath(dir, identifiers)
}

// d2c05Run writes the project, analyses it, applies the rename configuration and
// compares every file with the expected bytes.
func d2c05Run(t *testing.T, files map[string]string, conf string, want map[string]string) {
	dir, err := ioutil.TempDir("", "c05defect2")
	if err != nil {
		t.Fatal(err)
	}
	defer os.RemoveAll(dir)

	for name, content := range files {
		p := filepath.Join(dir, filepath.FromSlash(name))
		if err := os.MkdirAll(filepath.Dir(p), 0755); err != nil {
			t.Fatal(err)
		}
		if err := ioutil.WriteFile(p, []byte(content), 0644); err != nil {
			t.Fatal(err)
		}
	}

	nodes := d2c05Analyse(dir)

	func() {
		defer func() {
			if r := recover(); r != nil {
				t.Errorf("rename panicked: %v", r)
			}
		}()
		RenameMethodApp(nodes).Refactoring(conf)
	}()

	var names []string
	for name := range files {
		names = append(names, name)
	}
	sort.Strings(names)
	for _, name := range names {
		got, err := ioutil.ReadFile(filepath.Join(dir, filepath.FromSlash(name)))
		if err != nil {
			t.Fatal(err)
		}
		if string(got) != want[name] {
			t.Errorf("%s after rename differs from the expected bytes:\n%s", name, d2c05Diff(want[name], string(got)))
		}
	}
}

func d2c05Diff(want, got string) string {
	wl := strings.Split(want, "\n")
	gl := strings.Split(got, "\n")
	var sb strings.Builder
	if len(wl) != len(gl) {
		fmt.Fprintf(&sb, "  line count: want %d, got %d\n", len(wl), len(gl))
		return sb.String()
	}
	for i := range wl {
		if wl[i] != gl[i] {
			fmt.Fprintf(&sb, "  line %d: want %q\n           got  %q\n", i+1, wl[i], gl[i])
		}
	}
	return sb.String()
}

const d2c05User = `package a;

public class User {
    Outer o;
    public void run() {
        o.foo();
    }
}
`

const d2c05UserWant = `package a;

public class User {
    Outer o;
    public void run() {
        o.bar();
    }
}
`

// A plain "new X()" inside the body of an anonymous class ends the listener's
// "CreatorClass" mode (ExitCreator), so the closing brace of the anonymous class
// is taken for the end of Outer: every member declared after it is dropped from
// the model.  The calls of Outer.foo are renamed, its declaration is not.
func TestDefect2_C05_NewInsideAnonymousClass(t *testing.T) {
	outer := `package a;

public class Outer {
    public void first() {
        Runnable r = new Runnable() {
            public void run() {
                StringBuilder sb = new StringBuilder();
            }
        };
    }

    public void foo() {
    }
}
`
	files := map[string]string{"a/Outer.java": outer, "a/User.java": d2c05User}
	want := map[string]string{
		"a/Outer.java": strings.Replace(outer, "public void foo()", "public void bar()", 1),
		"a/User.java":  d2c05UserWant,
	}
	d2c05Run(t, files, "a.Outer.foo -> a.Outer.bar\n", want)
}

// An anonymous class in a field initializer (no current method) never enters
// "CreatorClass" mode (EnterCreator returns early), so the closing brace of its
// body closes Outer: the members declared after the field are dropped from the
// model.  The calls of Outer.foo are renamed, its declaration is not.
func TestDefect2_C05_AnonymousClassInFieldInitializer(t *testing.T) {
	outer := `package a;

public class Outer {
    private final Runnable task = new Runnable() {
        public void run() {
        }
    };

    public void foo() {
    }
}
`
	files := map[string]string{"a/Outer.java": outer, "a/User.java": d2c05User}
	want := map[string]string{
		"a/Outer.java": strings.Replace(outer, "public void foo()", "public void bar()", 1),
		"a/User.java":  d2c05UserWant,
	}
	d2c05Run(t, files, "a.Outer.foo -> a.Outer.bar\n", want)
}

// The methods an outer class declares before a nested class are kept in the one
// method map and filed, at the end of the nested class, under that nested class
// (Outer.InnerStructures[0].Functions); Outer.Functions only has the methods that
// follow.  The calls of Outer.foo are renamed, its declaration is not.
func TestDefect2_C05_MethodBeforeNestedClass(t *testing.T) {
	outer := `package a;

public class Outer {
    public void foo() {
    }

    static class Inner {
        void x() {
        }
    }

    public void last() {
    }
}
`
	files := map[string]string{"a/Outer.java": outer, "a/User.java": d2c05User}
	want := map[string]string{
		"a/Outer.java": strings.Replace(outer, "public void foo()", "public void bar()", 1),
		"a/User.java":  d2c05UserWant,
	}
	d2c05Run(t, files, "a.Outer.foo -> a.Outer.bar\n", want)
}

// A generic method of an interface (<T> T foo(T t);) is a
// genericInterfaceMethodDeclaration, for which the listener has no handler: the
// declaration is not in the model.  The calls of Svc.foo are renamed, its
// declaration is not.
func TestDefect2_C05_GenericInterfaceMethod(t *testing.T) {
	svc := `package a;

public interface Svc {
    <T> T foo(T key);
}
`
	use := `package a;

public class Use {
    Svc s;
    public void run() {
        s.foo("x");
    }
}
`
	files := map[string]string{"a/Svc.java": svc, "a/Use.java": use}
	want := map[string]string{
		"a/Svc.java": strings.Replace(svc, "<T> T foo(T key);", "<T> T bar(T key);", 1),
		"a/Use.java": strings.Replace(use, "s.foo(", "s.bar(", 1),
	}
	d2c05Run(t, files, "a.Svc.foo -> a.Svc.bar\n", want)
}
