package call_test

import (
	"io/ioutil"
	"os"
	"path/filepath"
	"strings"
	"testing"

	"github.com/modernizing/coca/cocatest/testhelper"
	"github.com/modernizing/coca/pkg/application/api"
	"github.com/modernizing/coca/pkg/application/call"
	"github.com/modernizing/coca/pkg/domain/core_domain"
)

func defect2C03Write(t *testing.T, dir, name, src string) {
	p := filepath.Join(dir, filepath.FromSlash(name))
	if err := os.MkdirAll(filepath.Dir(p), 0755); err != nil {
		t.Fatal(err)
	}
	if err := ioutil.WriteFile(p, []byte(src), 0644); err != nil {
		t.Fatal(err)
	}
}

// An injected interface (p.api.Greeter) has a registered implementation
// (@Component p.impl.GreeterImpl implements Greeter). The API chain of GET /hello must show
// HelloController.hello -> GreeterImpl.greet and go on into GreeterImpl.greet -> Helper.help.
// The DI map that the `api` command (cmd/api.go) and call_graph_test.go build with
// core_domain.BuildDIMap registers the interface under itself, so the replacement in
// BuildCallChain never changes anything and the chain stops at the interface method.
func TestDefect2_C03_DIMapRegistersInterfaceAsItsOwnImplementation(t *testing.T) {
	defer func() {
		if r := recover(); r != nil {
			t.Fatalf("panic: %v", r)
		}
	}()

	dir, err := ioutil.TempDir("", "defect2c03")
	if err != nil {
		t.Fatal(err)
	}
	defer os.RemoveAll(dir)

	defect2C03Write(t, dir, "p/api/Greeter.java", `package p.api;

public interface Greeter {
    String greet();
}
`)
	defect2C03Write(t, dir, "p/impl/Helper.java", `package p.impl;

public class Helper {
    public String help() {
        return "hi";
    }
}
`)
	defect2C03Write(t, dir, "p/impl/GreeterImpl.java", `package p.impl;

import org.springframework.stereotype.Component;
import p.api.Greeter;

@Component
public class GreeterImpl implements Greeter {
    private Helper helper;

    public String greet() {
        return helper.help();
    }
}
`)
	defect2C03Write(t, dir, "p/web/HelloController.java", `package p.web;

import org.springframework.beans.factory.annotation.Autowired;
import org.springframework.web.bind.annotation.GetMapping;
import org.springframework.web.bind.annotation.RestController;
import p.api.Greeter;

@RestController
public class HelloController {
    @Autowired
    private Greeter greeter;

    @GetMapping("/hello")
    public String hello() {
        return greeter.greet();
    }
}
`)

	callNodes, identifiersMap, identifiers := testhelper.BuildAnalysisDeps(dir)
	diMap := core_domain.BuildDIMap(identifiers, identifiersMap)

	app := new(api.JavaApiApp)
	restApis := app.AnalysisPath(dir, callNodes, identifiersMap, diMap)
	if len(restApis) != 1 {
		t.Fatalf("fixture: expected one API, got %+v", restApis)
	}

	// the model records both calls (sanity of the fixture, independent of the DI map)
	methodMap := call.BuildMethodMap(callNodes)
	if got := methodMap["p.web.HelloController.hello"]; len(got) != 1 || got[0] != "p.api.Greeter.greet" {
		t.Fatalf("fixture: HelloController.hello calls %v", got)
	}
	if got := methodMap["p.impl.GreeterImpl.greet"]; len(got) != 1 || got[0] != "p.impl.Helper.help" {
		t.Fatalf("fixture: GreeterImpl.greet calls %v", got)
	}

	if diMap["p.api.Greeter"] != "p.impl.GreeterImpl" {
		t.Errorf("DI map: p.api.Greeter is registered as %q, want its implementation p.impl.GreeterImpl (whole map: %v)", diMap["p.api.Greeter"], diMap)
	}

	dot, counts := call.NewCallGraph().AnalysisByFiles(restApis, callNodes, diMap)

	for _, edge := range []string{
		`"p.web.HelloController.hello" -> "p.impl.GreeterImpl.greet";`,
		`"p.impl.GreeterImpl.greet" -> "p.impl.Helper.help";`,
	} {
		if !strings.Contains(dot, edge) {
			t.Errorf("API chain lacks the edge %s\n%s", edge, dot)
		}
	}
	if strings.Contains(dot, `-> "p.api.Greeter.greet"`) {
		t.Errorf("API chain still points at the injected interface instead of its registered implementation\n%s", dot)
	}
	if len(counts) != 1 || counts[0].Size != 3 {
		t.Errorf("reported size %+v, want 3 (two edges below the handler plus one)", counts)
	}
}
