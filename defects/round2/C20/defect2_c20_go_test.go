package ast_go

import (
	"fmt"
	"testing"

	"github.com/modernizing/coca/pkg/domain/core_domain"
)

// helpers ---------------------------------------------------------------

func c20Parse(t *testing.T, code string, fileName string) (container *core_domain.CodeContainer) {
	t.Helper()
	defer func() {
		if r := recover(); r != nil {
			t.Fatalf("front-end panicked on a file go/parser accepts: %v", r)
		}
	}()
	return NewCocagoParser().ProcessString(code, fileName, nil)
}

func c20Func(t *testing.T, c *core_domain.CodeContainer, name string) core_domain.CodeFunction {
	t.Helper()
	for _, m := range c.Members {
		for _, f := range m.FunctionNodes {
			if f.Name == name {
				return f
			}
		}
	}
	for _, ds := range c.DataStructures {
		for _, f := range ds.Functions {
			if f.Name == name {
				return f
			}
		}
	}
	t.Fatalf("function %s is not listed at all", name)
	return core_domain.CodeFunction{}
}

func c20Calls(f core_domain.CodeFunction) []string {
	var out []string
	for _, c := range f.FunctionCalls {
		out = append(out, fmt.Sprintf("%s.%s", c.NodeName, c.FunctionName))
	}
	return out
}

// Defect 1: `f, err := os.Open(name)` is ONE package-qualified call; the model lists it twice
// (once per left-hand side name).
func TestDefect2_C20_MultiAssignCallListedTwice(t *testing.T) {
	code := `package p

import "os"

func Load(name string) {
	f, err := os.Open(name)
	_ = f
	_ = err
}

func Single(name string) {
	f := os.Getenv(name)
	_ = f
}
`
	c := c20Parse(t, code, "main.go")

	countOs := func(fn string) int {
		n := 0
		for _, call := range c20Func(t, c, fn).FunctionCalls {
			if call.NodeName == "os" && call.Package == "os" {
				n++
			}
		}
		return n
	}

	if got := countOs("Single"); got != 1 {
		t.Fatalf("control: `f := os.Getenv(name)` should be listed once, got %d", got)
	}
	if got := countOs("Load"); got != 1 {
		t.Errorf("`f, err := os.Open(name)` is one call and must be listed exactly once, the model lists it %d times: %v",
			got, c20Calls(c20Func(t, c, "Load")))
	}
}

// Defect 2: `defer func() { mu.Unlock() }()` (an immediately invoked func literal - the usual
// shape of a deferred clean-up / recover block). The model gets an entry with no name at all
// (NodeName == "" and FunctionName == "") and the receiver call written as a statement inside
// the literal is missing, although the very same statement inside a func literal *argument*
// (`once.Do(func() { mu.Unlock() })`) is listed.
func TestDefect2_C20_InvokedFuncLiteral(t *testing.T) {
	code := `package p

import "sync"

var mu sync.Mutex
var once sync.Once

func ViaArgument() {
	once.Do(func() {
		mu.Unlock()
	})
}

func ViaDefer() {
	mu.Lock()
	defer func() {
		mu.Unlock()
	}()
}
`
	c := c20Parse(t, code, "main.go")

	control := c20Calls(c20Func(t, c, "ViaArgument"))
	if fmt.Sprint(control) != "[mu.Unlock once.Do]" {
		t.Fatalf("control: statements of a func literal argument should be listed, got %v", control)
	}

	calls := c20Func(t, c, "ViaDefer").FunctionCalls
	names := c20Calls(c20Func(t, c, "ViaDefer"))
	unlock := 0
	for _, call := range calls {
		if call.NodeName == "" && call.FunctionName == "" {
			t.Errorf("the model lists a call that has no name at all (NodeName and FunctionName empty): %+v; all calls: %v", call, names)
		}
		if call.NodeName == "mu" && call.FunctionName == "Unlock" {
			unlock++
		}
	}
	if unlock != 1 {
		t.Errorf("receiver call statement `mu.Unlock()` inside `defer func() { ... }()` must be listed exactly once, listed %d times; all calls: %v", unlock, names)
	}
}
