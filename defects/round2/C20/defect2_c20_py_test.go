package pyapp

import (
	"fmt"
	"testing"

	"github.com/modernizing/coca/pkg/domain/core_domain"
)

func c20PyAnalyse(t *testing.T, code string) (container core_domain.CodeContainer) {
	t.Helper()
	defer func() {
		if r := recover(); r != nil {
			t.Fatalf("python front-end panicked: %v", r)
		}
	}()
	return new(PythonIdentApp).Analysis(code, "m.py")
}

func c20FuncNames(fs []core_domain.CodeFunction) []string {
	var out []string
	for _, f := range fs {
		out = append(out, f.Name)
	}
	return out
}

// Defect 3: the usual multi-line form of a from-import, with a trailing comma,
//
//	from pkg import (
//	    first,
//	    second,
//	)
//
// yields three usage names: "first", "second" and a phantom "".
func TestDefect2_C20_PyFromImportTrailingComma(t *testing.T) {
	code := "from pkg import (\n    first,\n    second,\n)\n"
	c := c20PyAnalyse(t, code)

	if len(c.Imports) != 1 {
		t.Fatalf("one from-import expected, got %d: %+v", len(c.Imports), c.Imports)
	}
	got := fmt.Sprintf("%q", c.Imports[0].UsageName)
	if got != `["first" "second"]` {
		t.Errorf("from pkg import (first, second,) imports exactly first and second; the model lists %s", got)
	}

	// control: without the trailing comma the list is right
	c = c20PyAnalyse(t, "from pkg import (\n    first,\n    second\n)\n")
	if got := fmt.Sprintf("%q", c.Imports[0].UsageName); got != `["first" "second"]` {
		t.Fatalf("control failed: %s", got)
	}
}

// Defect 4: a def nested in a method is listed as a method of the class, and a def nested in a
// module-level function is listed as a module-level function.
func TestDefect2_C20_PyNestedDefFiledAsMethodAndModuleFunction(t *testing.T) {
	code := `class Repo:
    def find(self, key):
        def matches(item):
            return item == key
        return matches

    def save(self):
        pass


def outer():
    def inner():
        pass
    return inner


def last():
    pass
`
	c := c20PyAnalyse(t, code)

	if len(c.DataStructures) != 1 || c.DataStructures[0].NodeName != "Repo" {
		t.Fatalf("class Repo expected exactly once, got %+v", c.DataStructures)
	}
	methods := fmt.Sprint(c20FuncNames(c.DataStructures[0].Functions))
	if methods != "[find save]" {
		t.Errorf("class Repo has the methods find and save; the model lists %s (matches is a local def of find, not a method of Repo)", methods)
	}

	var moduleFuncs []string
	for _, m := range c.Members {
		moduleFuncs = append(moduleFuncs, c20FuncNames(m.FunctionNodes)...)
	}
	if fmt.Sprint(moduleFuncs) != "[outer last]" {
		t.Errorf("the module-level functions are outer and last; the model lists %v (inner is a local def of outer)", moduleFuncs)
	}
}
