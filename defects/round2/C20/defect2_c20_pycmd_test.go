package app

import (
	"bytes"
	"encoding/json"
	"io/ioutil"
	"os"
	"path/filepath"
	"testing"

	"github.com/modernizing/coca/pkg/domain/core_domain"
)

// Defect 5: the Python analysis command hands cocafile.GoFileFilter to CommonAnalysis, so the
// Python front-end is never given a single .py file: for a directory holding one Python module
// with one class, pydeps.json is "null".
func TestDefect2_C20_PyAnalysisCommandSkipsPythonFiles(t *testing.T) {
	work := t.TempDir()

	src := filepath.Join(work, "src")
	if err := os.MkdirAll(src, 0o755); err != nil {
		t.Fatal(err)
	}
	module := "class Blog:\n    def title(self):\n        pass\n"
	if err := ioutil.WriteFile(filepath.Join(src, "blog.py"), []byte(module), 0o644); err != nil {
		t.Fatal(err)
	}

	// the command writes ./coca_reporter/pydeps.json
	old, _ := os.Getwd()
	if err := os.Chdir(work); err != nil {
		t.Fatal(err)
	}
	defer os.Chdir(old)

	out := new(bytes.Buffer)
	root := NewRootCmd(out)
	root.SetArgs([]string{"analysis", "-p", src})
	func() {
		defer func() {
			if r := recover(); r != nil {
				t.Fatalf("analysis command panicked: %v", r)
			}
		}()
		if err := root.Execute(); err != nil {
			t.Fatal(err)
		}
	}()

	payload, err := ioutil.ReadFile(filepath.Join(work, "coca_reporter", "pydeps.json"))
	if err != nil {
		t.Fatal(err)
	}
	var ds []core_domain.CodeDataStruct
	if err := json.Unmarshal(payload, &ds); err != nil {
		t.Fatalf("pydeps.json is not a list of data structures: %v\n%s", err, payload)
	}

	found := 0
	for _, d := range ds {
		if d.NodeName == "Blog" {
			found++
			if len(d.Functions) != 1 || d.Functions[0].Name != "title" {
				t.Errorf("class Blog should list its method title, got %+v", d.Functions)
			}
		}
	}
	if found != 1 {
		t.Errorf("the module src/blog.py declares class Blog; the model written by the python analysis command lists it %d times; pydeps.json = %s", found, payload)
	}
}
