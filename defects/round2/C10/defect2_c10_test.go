package bs

import (
	"fmt"
	"os"
	"path/filepath"
	"strings"
	"testing"

	"github.com/modernizing/coca/pkg/domain/bs_domain"
)

// defect2C10Analyse writes one Java source file into a temporary directory, runs the real
// bad-smell pipeline (AnalysisPath + IdentifyBadSmell) on it and returns the findings.
// A panic inside the pipeline is reported as a test failure.
func defect2C10Analyse(t *testing.T, fileName string, source string, ignore []string) (findings []bs_domain.BadSmellModel, file string) {
	t.Helper()
	dir := t.TempDir()
	file = filepath.Join(dir, fileName)
	if err := os.WriteFile(file, []byte(source), 0644); err != nil {
		t.Fatal(err)
	}
	defer func() {
		if r := recover(); r != nil {
			t.Fatalf("bad-smell analysis panicked: %v", r)
		}
	}()
	app := NewBadSmellApp()
	nodes := app.AnalysisPath(file)
	findings = app.IdentifyBadSmell(nodes, ignore)
	return findings, file
}

func defect2C10Find(findings []bs_domain.BadSmellModel, kind string, line string) []bs_domain.BadSmellModel {
	var out []bs_domain.BadSmellModel
	for _, f := range findings {
		if f.Bs == kind && (line == "*" || f.Line == line) {
			out = append(out, f)
		}
	}
	return out
}

func defect2C10Dump(findings []bs_domain.BadSmellModel) string {
	var lines []string
	for _, f := range findings {
		lines = append(lines, fmt.Sprintf("{%s line=%q size=%d}", f.Bs, f.Line, f.Size))
	}
	return "[" + strings.Join(lines, " ") + "]"
}

// Defect 1: methods of an interface that declare their own type parameters
// (`<T> T pick(...)`, grammar rule genericInterfaceMethodDeclaration) are not recorded at all,
// so neither longParameterList nor longMethod is reported for them.
func TestDefect2_C10_GenericInterfaceMethod(t *testing.T) {
	var src strings.Builder
	src.WriteString("package demo;\n")                                               // 1
	src.WriteString("\n")                                                            // 2
	src.WriteString("public interface Picker {\n")                                   // 3
	src.WriteString("    String plain(int a, int b, int c, int d, int e, int f);\n") // 4  control: 6 parameters
	src.WriteString("    <T> T pick(T a, T b, T c, T d, T e, T f);\n")               // 5  6 parameters, generic
	src.WriteString("    default <T> T longest(T a) {\n")                            // 6  closing brace on line 37 => 31 lines below
	for i := 0; i < 30; i++ {
		src.WriteString("        a.hashCode();\n") // 7..36
	}
	src.WriteString("    }\n") // 37
	src.WriteString("}\n")     // 38

	findings, file := defect2C10Analyse(t, "Picker.java", src.String(), nil)

	// control: the non-generic twin is found, with file, line and size
	plain := defect2C10Find(findings, SMELL_LONG_PARAMETER_LIST, "4")
	if len(plain) != 1 || plain[0].Size != 6 || plain[0].File != file {
		t.Fatalf("control failed: want one longParameterList (size 6) at line 4, got %s", defect2C10Dump(findings))
	}

	generic := defect2C10Find(findings, SMELL_LONG_PARAMETER_LIST, "5")
	if len(generic) != 1 || generic[0].Size != 6 || generic[0].File != file {
		t.Errorf("generic interface method `<T> T pick(T a, T b, T c, T d, T e, T f)` (6 parameters, line 5): want exactly one longParameterList with size 6, got %s", defect2C10Dump(findings))
	}

	long := defect2C10Find(findings, SMELL_LONG_METHOD, "6")
	if len(long) != 1 || long[0].Size != 31 || long[0].File != file {
		t.Errorf("generic default method whose closing brace is 31 lines below its declaration (line 6): want exactly one longMethod with size 31, got %s", defect2C10Dump(findings))
	}
}

// Defect 2: a method that declares the (Java 8) receiver parameter in front of its formal
// parameters - `void m(Worker this, int a, ...)` - is recorded with zero parameters, so a method
// with six formal parameters is not reported as longParameterList.
func TestDefect2_C10_ReceiverParameter(t *testing.T) {
	src := "package demo;\n" + // 1
		"\n" + // 2
		"public class Worker {\n" + // 3
		"    void plain(int a, int b, int c, int d, int e, int f) { }\n" + // 4 control
		"    void annotated(Worker this, int a, int b, int c, int d, int e, int f) { }\n" + // 5  six formal parameters
		"    void five(Worker this, int a, int b, int c, int d, int e) { }\n" + // 6  five formal parameters: no finding
		"}\n"

	findings, file := defect2C10Analyse(t, "Worker.java", src, nil)

	plain := defect2C10Find(findings, SMELL_LONG_PARAMETER_LIST, "4")
	if len(plain) != 1 || plain[0].Size != 6 {
		t.Fatalf("control failed: want one longParameterList (size 6) at line 4, got %s", defect2C10Dump(findings))
	}

	got := defect2C10Find(findings, SMELL_LONG_PARAMETER_LIST, "5")
	if len(got) != 1 || got[0].Size != 6 || got[0].File != file {
		t.Errorf("method with receiver parameter and six formal parameters (line 5): want exactly one longParameterList with size 6, got %s", defect2C10Dump(findings))
	}
	if extra := defect2C10Find(findings, SMELL_LONG_PARAMETER_LIST, "6"); len(extra) != 0 {
		t.Errorf("method with receiver parameter and five formal parameters (line 6) must not be reported, got %s", defect2C10Dump(findings))
	}
}

// Defect 3: the methods of an anonymous class that is created inside a method (or a field
// initialiser) are appended to the method list of the enclosing class. The class-level smells
// (dataClass, largeClass, lazyElement) are then computed from a wrong method list.
func TestDefect2_C10_AnonymousClassMethods(t *testing.T) {
	// (a) a class with only getters/setters, one getter hands out a Runnable
	data := "package demo;\n" + // 1
		"\n" + // 2
		"public class Holder {\n" + // 3
		"    private int value;\n" + // 4
		"    public int getValue() { return value; }\n" + // 5
		"    public void setValue(int value) { this.value = value; }\n" + // 6
		"    public Runnable getResetter() {\n" + // 7
		"        return new Runnable() {\n" + // 8
		"            public void run() { value = 0; }\n" + // 9
		"        };\n" + // 10
		"    }\n" + // 11
		"}\n"
	findings, file := defect2C10Analyse(t, "Holder.java", data, nil)
	dataClass := defect2C10Find(findings, SMELL_DATA_CLASS, "*")
	if len(dataClass) != 1 || dataClass[0].Size != 3 || dataClass[0].File != file {
		t.Errorf("class Holder has the methods getValue, setValue, getResetter (only getters/setters): want exactly one dataClass with size 3, got %s", defect2C10Dump(findings))
	}

	// (b) a class with 19 ordinary methods; one of them creates an anonymous Runnable
	var large strings.Builder
	large.WriteString("package demo;\n\npublic class Nineteen {\n")
	for i := 0; i < 18; i++ {
		large.WriteString(fmt.Sprintf("    public void work%d() { }\n", i))
	}
	large.WriteString("    public Runnable task() {\n")
	large.WriteString("        return new Runnable() {\n")
	large.WriteString("            public void run() { }\n")
	large.WriteString("        };\n")
	large.WriteString("    }\n")
	large.WriteString("}\n")
	findings, _ = defect2C10Analyse(t, "Nineteen.java", large.String(), nil)
	if got := defect2C10Find(findings, SMELL_LARGE_CLASS, "*"); len(got) != 0 {
		t.Errorf("class Nineteen has 19 methods (threshold for largeClass is 20): want no largeClass, got %s", defect2C10Dump(findings))
	}

	// (c) a class without methods whose only member is a field initialised with an anonymous class
	lazy := "package demo;\n\npublic class Constants {\n" +
		"    static final Runnable NOOP = new Runnable() {\n" +
		"        public void run() { }\n" +
		"    };\n" +
		"}\n"
	findings, file = defect2C10Analyse(t, "Constants.java", lazy, nil)
	if got := defect2C10Find(findings, SMELL_LAZY_ELEMENT, "*"); len(got) != 1 || got[0].File != file {
		t.Errorf("class Constants declares no method: want exactly one lazyElement, got %s", defect2C10Dump(findings))
	}
}
