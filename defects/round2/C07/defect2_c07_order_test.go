package javaapp

import (
	"io/ioutil"
	"os"
	"path/filepath"
	"strings"
	"testing"
)

// Property C07: running the same analysis again in the same process gives the same model entries.
//
// The calls made by field initialisers (and initialiser blocks) are collected in nameless
// pseudo-functions at position 0:0. One class gets several of them: the key of the method map
// contains the name of the last declared method as soon as two methods have been seen
// (getMethodMapName). SetMethodFromMap orders the functions by position and name only, so the
// relative order of these entries is the iteration order of a Go map - it changes from run to run.
func TestDefect2_C07_InitialiserEntriesOrder(t *testing.T) {
	dir, err := ioutil.TempDir("", "c07order")
	if err != nil {
		t.Fatal(err)
	}
	defer os.RemoveAll(dir)

	code := `package p;

public class Holder {
    private A a = A.create();
    void m1() { }
    private B b = B.create();
    void m2() { }
    private C c = C.create();
    void m3() { }
    private D d = D.create();
    void m4() { }
    private E e = E.create();
}
`
	file := filepath.Join(dir, "Holder.java")
	if err := ioutil.WriteFile(file, []byte(code), 0644); err != nil {
		t.Fatal(err)
	}

	identApp := NewJavaIdentifierApp()
	idents := identApp.AnalysisFiles([]string{file})

	fullApp := NewJavaFullApp()
	// the Functions of Holder, each one as name(callee types)
	run := func() string {
		nodes := fullApp.AnalysisFiles(idents, []string{file})
		if len(nodes) != 1 {
			t.Fatalf("expected one class, got %d", len(nodes))
		}
		var functions []string
		for _, function := range nodes[0].Functions {
			var callees []string
			for _, call := range function.FunctionCalls {
				callees = append(callees, call.NodeName)
			}
			functions = append(functions, "'"+function.Name+"'("+strings.Join(callees, ",")+")")
		}
		return strings.Join(functions, " ")
	}

	first := run()
	for i := 2; i <= 40; i++ {
		again := run()
		if again != first {
			t.Fatalf("the same file, analysed again in the same process, lists its functions in another order:\nrun 1:  %s\nrun %d: %s", first, i, again)
		}
	}
}
