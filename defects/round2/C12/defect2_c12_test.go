package api

import (
	"os"
	"path/filepath"
	"strings"
	"testing"

	api_domain2 "github.com/modernizing/coca/pkg/domain/api_domain"
)

// scanC12 writes the given sources into a fresh project directory and runs the real API scan on it.
func scanC12(t *testing.T, files map[string]string) (apis []api_domain2.RestAPI) {
	t.Helper()
	dir := t.TempDir()
	for name, src := range files {
		p := filepath.Join(dir, filepath.FromSlash(name))
		if err := os.MkdirAll(filepath.Dir(p), 0o755); err != nil {
			t.Fatal(err)
		}
		if err := os.WriteFile(p, []byte(src), 0o644); err != nil {
			t.Fatal(err)
		}
	}
	defer func() {
		if r := recover(); r != nil {
			t.Fatalf("API scan panicked: %v", r)
		}
	}()
	return new(JavaApiApp).AnalysisPath(dir, nil, nil, nil)
}

func findC12(apis []api_domain2.RestAPI, method string) *api_domain2.RestAPI {
	for i := range apis {
		if apis[i].MethodName == method {
			return &apis[i]
		}
	}
	return nil
}

// @RequestMapping(method = {RequestMethod.GET, RequestMethod.POST}): the method= form with two verbs.
// The entry must carry the verb(s) the annotation names; the code leaves HttpMethod empty.
func TestDefect2_C12_MultiVerbArray(t *testing.T) {
	apis := scanC12(t, map[string]string{"src/main/java/p/FormController.java": `package p;

@Controller
@RequestMapping("/form")
public class FormController {
    @RequestMapping(value = "/edit", method = {RequestMethod.GET, RequestMethod.POST})
    public String edit(Model model) {
        return "edit";
    }

    @RequestMapping(value = "/one", method = {RequestMethod.GET})
    public String one() {
        return "one";
    }
}
`})
	if len(apis) != 2 {
		t.Fatalf("want 2 entries, got %d: %+v", len(apis), apis)
	}
	one := findC12(apis, "one")
	if one == nil || one.HttpMethod != "GET" || one.Uri != "/form/one" {
		t.Fatalf("control handler wrong: %+v", one)
	}
	edit := findC12(apis, "edit")
	if edit == nil || edit.Uri != "/form/edit" {
		t.Fatalf("edit handler missing or wrong URI: %+v", edit)
	}
	if edit.HttpMethod == "" {
		t.Fatalf("handler mapped with method = {RequestMethod.GET, RequestMethod.POST} has an empty HttpMethod: %+v", *edit)
	}
	if !strings.Contains(edit.HttpMethod, "GET") && !strings.Contains(edit.HttpMethod, "POST") {
		t.Fatalf("HttpMethod %q names neither GET nor POST", edit.HttpMethod)
	}
}

// @RequestMapping(value = "/x", method = RequestMethod.PATCH): a RequestMapping handler in the method= form.
// The entry must carry the HTTP verb; the verb table knows only GET/PUT/POST/DELETE and leaves it empty.
func TestDefect2_C12_RequestMappingPatchVerb(t *testing.T) {
	apis := scanC12(t, map[string]string{"src/main/java/p/UserController.java": `package p;

@RestController
@RequestMapping("/users")
public class UserController {
    @RequestMapping(value = "/{id}", method = RequestMethod.GET)
    public User get(@PathVariable Long id) {
        return null;
    }

    @RequestMapping(value = "/{id}", method = RequestMethod.PATCH)
    public User patch(@PathVariable Long id, @RequestBody UserPatch patch) {
        return null;
    }

    @RequestMapping(value = "/{id}", method = RequestMethod.HEAD)
    public void exists(@PathVariable Long id) {
    }
}
`})
	if len(apis) != 3 {
		t.Fatalf("want 3 entries, got %d: %+v", len(apis), apis)
	}
	if g := findC12(apis, "get"); g == nil || g.HttpMethod != "GET" {
		t.Fatalf("control handler wrong: %+v", g)
	}
	for method, verb := range map[string]string{"patch": "PATCH", "exists": "HEAD"} {
		api := findC12(apis, method)
		if api == nil {
			t.Fatalf("no entry for %s", method)
		}
		if api.HttpMethod != verb {
			t.Errorf("%s: @RequestMapping(method = RequestMethod.%s) gives HttpMethod %q, want %q (entry %+v)", method, verb, api.HttpMethod, verb, *api)
		}
	}
}

// The request-body type is the text of the parameter's type. The code takes TypeType().GetText(), which glues the
// tokens together: List<? extends Shape> becomes List<?extendsShape>, List<@Valid ItemDto> becomes List<@ValidItemDto>.
func TestDefect2_C12_RequestBodyTypeText(t *testing.T) {
	apis := scanC12(t, map[string]string{"src/main/java/p/ShapeController.java": `package p;

import java.util.List;

@RestController
@RequestMapping("/shapes")
public class ShapeController {
    @PostMapping("/plain")
    public void plain(@RequestBody List<Shape> shapes) {
    }

    @PostMapping("/bulk")
    public void bulk(@RequestBody List<? extends Shape> shapes) {
    }

    @PostMapping("/valid")
    public void valid(@RequestBody List<@Valid ItemDto> items) {
    }
}
`})
	if len(apis) != 3 {
		t.Fatalf("want 3 entries, got %d: %+v", len(apis), apis)
	}
	if p := findC12(apis, "plain"); p == nil || p.RequestBodyClass != "List<Shape>" {
		t.Fatalf("control handler wrong: %+v", p)
	}
	bulk := findC12(apis, "bulk")
	if bulk == nil {
		t.Fatal("no entry for bulk")
	}
	if got := strings.ReplaceAll(bulk.RequestBodyClass, "< ", "<"); got != "List<? extends Shape>" {
		t.Errorf("bulk: request-body type %q, want %q", bulk.RequestBodyClass, "List<? extends Shape>")
	}
	valid := findC12(apis, "valid")
	if valid == nil {
		t.Fatal("no entry for valid")
	}
	if valid.RequestBodyClass != "List<@Valid ItemDto>" && valid.RequestBodyClass != "List<ItemDto>" {
		t.Errorf("valid: request-body type %q, want %q (or %q)", valid.RequestBodyClass, "List<@Valid ItemDto>", "List<ItemDto>")
	}
}
