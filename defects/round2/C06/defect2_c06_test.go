package unused

import (
	"io/ioutil"
	"os"
	"path/filepath"
	"strings"
	"testing"
)

// runRemoval writes the given files into a fresh directory, runs the real
// unused-import removal (Analysis + Refactoring) `runs` times and returns the
// file contents after every run. A panic is reported as a test failure.
func c06RunRemoval(t *testing.T, files map[string]string, runs int) (after []map[string]string) {
	t.Helper()
	dir, err := ioutil.TempDir("", "c06d2")
	if err != nil {
		t.Fatal(err)
	}
	defer os.RemoveAll(dir)
	// a conventional project directory has an ignore file; it also silences the "open .gitignore" notice
	_ = ioutil.WriteFile(filepath.Join(dir, ".gitignore"), []byte("target/\n"), 0644)
	for name, content := range files {
		p := filepath.Join(dir, filepath.FromSlash(name))
		_ = os.MkdirAll(filepath.Dir(p), 0755)
		if err := ioutil.WriteFile(p, []byte(content), 0644); err != nil {
			t.Fatal(err)
		}
	}
	defer func() {
		if r := recover(); r != nil {
			t.Fatalf("unused-import removal panicked: %v", r)
		}
	}()
	for i := 0; i < runs; i++ {
		app := NewRemoveUnusedImportApp(dir)
		app.Refactoring(app.Analysis())
		snap := map[string]string{}
		for name := range files {
			b, _ := ioutil.ReadFile(filepath.Join(dir, filepath.FromSlash(name)))
			snap[name] = string(b)
		}
		after = append(after, snap)
	}
	return after
}

func c06Lines(lines ...string) string {
	return strings.Join(lines, "\n") + "\n"
}

// Defect 1: a type annotation on a qualified type (JLS 9.7.4: `Map.@Nullable Entry`,
// the only admissible place for a type annotation on a nested type) is parsed as
// annotation -> altAnnotationQualifiedName. EnterAnnotation returns early when
// QualifiedName() is nil, so neither the annotation name nor the qualifier is recorded
// and both imports are deleted although they are used (as an annotation / as a type).
func TestDefect2_C06_QualifiedTypeAnnotation(t *testing.T) {
	src := c06Lines(
		"package p;",
		"",
		"import java.util.List;", // the only unused import
		"import java.util.Map;",
		"import org.checkerframework.checker.nullness.qual.Nullable;",
		"",
		"class C {",
		"    Map.@Nullable Entry<String, String> first;",
		"}",
	)
	want := c06Lines(
		"package p;",
		"",
		"import java.util.Map;",
		"import org.checkerframework.checker.nullness.qual.Nullable;",
		"",
		"class C {",
		"    Map.@Nullable Entry<String, String> first;",
		"}",
	)
	got := c06RunRemoval(t, map[string]string{"src/main/java/p/C.java": src}, 1)[0]["src/main/java/p/C.java"]
	if got != want {
		t.Errorf("imports used as the annotation / the qualifier of `Map.@Nullable Entry` must be kept.\n--- want\n%s--- got\n%s", want, got)
	}
}

// Defect 2: Java 9 try-with-resources on an existing variable (`try (SHARED) {...}`):
// grammar alternative `resource: identifier`. The name is not a `primary`, so the
// listener records nothing and the static import that brings the variable in is deleted.
func TestDefect2_C06_TryWithResourcesVariable(t *testing.T) {
	src := c06Lines(
		"package p;",
		"",
		"import static p.Pool.SHARED;",
		"import static p.Pool.OTHER;", // unused
		"",
		"class C {",
		"    void f() throws Exception {",
		"        try (SHARED) {",
		"            work();",
		"        }",
		"    }",
		"    void work() {}",
		"}",
	)
	want := c06Lines(
		"package p;",
		"",
		"import static p.Pool.SHARED;",
		"",
		"class C {",
		"    void f() throws Exception {",
		"        try (SHARED) {",
		"            work();",
		"        }",
		"    }",
		"    void work() {}",
		"}",
	)
	got := c06RunRemoval(t, map[string]string{"src/main/java/p/C.java": src}, 1)[0]["src/main/java/p/C.java"]
	if got != want {
		t.Errorf("static import referenced as a try-with-resources variable must be kept.\n--- want\n%s--- got\n%s", want, got)
	}
}

// Defect 3: an unused import declaration that spans two lines (one declaration per
// line group, no two imports share a line). Only the line of the `import` keyword
// is deleted; the rest of the declaration stays behind: the result is neither
// "original minus whole import lines" nor valid Java, and a used import may follow.
func TestDefect2_C06_ImportSpanningTwoLines(t *testing.T) {
	src := c06Lines(
		"package p;",
		"",
		"import static",
		"    com.example.verylongpackagename.generated.constants.Constants.SOME_UNUSED_CONSTANT;",
		"import java.util.Map;",
		"",
		"class C {",
		"    Map<String, String> m;",
		"}",
	)
	want := c06Lines(
		"package p;",
		"",
		"import java.util.Map;",
		"",
		"class C {",
		"    Map<String, String> m;",
		"}",
	)
	runs := c06RunRemoval(t, map[string]string{"src/main/java/p/C.java": src}, 2)
	got := runs[0]["src/main/java/p/C.java"]
	if got != want {
		t.Errorf("the whole unused import declaration (both lines) must go, nothing else.\n--- want\n%s--- got\n%s", want, got)
	}
	if runs[1]["src/main/java/p/C.java"] != got {
		t.Errorf("second run changed the file again:\n%s", runs[1]["src/main/java/p/C.java"])
	}
}

// Defect 4: one file whose syntax the bundled (Java 17) grammar cannot parse - here the
// Java 21 label `case null, default ->` - makes ANTLR's error recovery produce an empty
// expression node; isUppercaseText indexes []rune("")[0] and the whole Analysis panics.
// No file of the directory is cleaned then, also not the perfectly ordinary A.java.
func TestDefect2_C06_EmptyExpressionTextPanics(t *testing.T) {
	a := c06Lines(
		"package p;",
		"import a.Unused;",
		"import a.Used;",
		"class A { Used u; }",
	)
	b := c06Lines(
		"package p;",
		"import a.U1;",
		"import a.U2;",
		"import a.U3;", // unused
		"class B {",
		"    int f(Object x) {",
		"        return switch (x) {",
		"            case U2 u -> 1;",
		"            case null, default -> U1.N;",
		"        };",
		"    }",
		"}",
	)
	wantA := c06Lines(
		"package p;",
		"import a.Used;",
		"class A { Used u; }",
	)
	wantB := strings.Replace(b, "import a.U3;\n", "", 1)
	got := c06RunRemoval(t, map[string]string{"src/main/java/p/A.java": a, "src/main/java/p/B.java": b}, 1)[0] // Fatal on panic
	if got["src/main/java/p/A.java"] != wantA {
		t.Errorf("A.java not cleaned:\n%s", got["src/main/java/p/A.java"])
	}
	if got["src/main/java/p/B.java"] != wantB {
		t.Errorf("B.java:\n--- want\n%s--- got\n%s", wantB, got["src/main/java/p/B.java"])
	}
}
