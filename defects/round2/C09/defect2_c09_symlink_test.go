package javaapp

import (
	"io/ioutil"
	"os"
	"path/filepath"
	"testing"
)

// copy to: pkg/application/analysis/javaapp/defect2_c09_symlink_test.go
// run:     go test -vet=off -count=1 ./pkg/application/analysis/javaapp/ -run TestDefect2_C09

// A project directory that holds, next to its sources, a symbolic link whose name ends in .java and which
// cannot be read as a file: the lock file Emacs keeps while Foo.java has unsaved changes
// (.#Foo.java -> user@host.pid, a dangling link), or a link to a directory. filepath.Walk reports the link
// with Lstat, so the "directories are not listed" guard of GetFilesWithFilter lets it through,
// antlr.NewFileStream fails, the error is dropped and the lexer dereferences the nil stream:
// the one entry aborts the pass for the whole project.
func TestDefect2_C09_UnreadableSymlinkAbortsProject(t *testing.T) {
	dir, err := ioutil.TempDir("", "c09link")
	if err != nil {
		t.Fatal(err)
	}
	defer os.RemoveAll(dir)

	if err := ioutil.WriteFile(filepath.Join(dir, "Foo.java"), []byte("package demo;\npublic class Foo { void f() { } }\n"), 0644); err != nil {
		t.Fatal(err)
	}
	if err := os.Symlink("user@host.4242", filepath.Join(dir, ".#Foo.java")); err != nil {
		t.Skipf("symbolic links are not available here: %v", err)
	}
	if err := os.Mkdir(filepath.Join(dir, "generated"), 0755); err != nil {
		t.Fatal(err)
	}
	if err := os.Symlink(filepath.Join(dir, "generated"), filepath.Join(dir, "Generated.java")); err != nil {
		t.Fatal(err)
	}

	var panicked interface{}
	names := map[string]bool{}
	func() {
		defer func() { panicked = recover() }()
		identApp := NewJavaIdentifierApp()
		idents := identApp.AnalysisPath(dir)
		fullApp := NewJavaFullApp()
		for _, node := range fullApp.AnalysisPath(dir, idents) {
			names[node.NodeName] = true
		}
	}()

	if panicked != nil {
		t.Fatalf("the analysis of the project panicked on the unreadable link: %v", panicked)
	}
	if !names["Foo"] {
		t.Errorf("class Foo of the readable source is missing from the result: %v", names)
	}
}
