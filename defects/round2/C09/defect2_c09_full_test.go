package javaapp

import (
	"encoding/json"
	"fmt"
	"io/ioutil"
	"os"
	"path/filepath"
	"strings"
	"testing"

	"github.com/modernizing/coca/pkg/domain/core_domain"
)

// copy to: pkg/application/analysis/javaapp/defect2_c09_full_test.go
// run:     go test -vet=off -count=1 ./pkg/application/analysis/javaapp/ -run TestDefect2_C09

func defect2C09FullPass(t *testing.T, source string) (nodes []core_domain.CodeDataStruct, panicked interface{}) {
	dir, err := ioutil.TempDir("", "c09full")
	if err != nil {
		t.Fatal(err)
	}
	defer os.RemoveAll(dir)
	if err := ioutil.WriteFile(filepath.Join(dir, "Protos.java"), []byte(source), 0644); err != nil {
		t.Fatal(err)
	}

	defer func() {
		if r := recover(); r != nil {
			panicked = r
		}
	}()
	identApp := NewJavaIdentifierApp()
	idents := identApp.AnalysisPath(dir)
	fullApp := NewJavaFullApp()
	nodes = fullApp.AnalysisPath(dir, idents)
	return nodes, nil
}

// A holder class in the style of protoc output: per message one member interface (MnOrBuilder)
// and one member class (Mn, with a nested Builder). Valid Java, nested types only.
func defect2C09ProtoLike(messages int) string {
	var sb strings.Builder
	sb.WriteString("package demo;\npublic final class Protos {\n  private Protos() {}\n")
	for i := 0; i < messages; i++ {
		sb.WriteString(fmt.Sprintf("  public interface M%dOrBuilder { int getX(); }\n", i))
		sb.WriteString(fmt.Sprintf("  public static final class M%d implements M%dOrBuilder {\n", i, i))
		sb.WriteString("    public int getX() { return 0; }\n")
		sb.WriteString(fmt.Sprintf("    public static final class Builder implements M%dOrBuilder { public int getX() { return 0; } }\n", i))
		sb.WriteString("  }\n")
	}
	sb.WriteString("}\n")
	return sb.String()
}

// The model of the full pass doubles with every further member class: each finished member class is stored
// together with a copy of all member classes stored before it, so the result of a 3 KB source needs
// megabytes (12 messages: ~8 MB, 30 messages: terabytes) and cannot be serialised any more.
func TestDefect2_C09_InnerStructuresDouble(t *testing.T) {
	sizeOf := func(messages int) (int, int) {
		source := defect2C09ProtoLike(messages)
		nodes, p := defect2C09FullPass(t, source)
		if p != nil {
			t.Fatalf("full pass panicked: %v", p)
		}
		out, err := json.Marshal(nodes)
		if err != nil {
			t.Fatalf("result cannot be serialised: %v", err)
		}
		return len(source), len(out)
	}

	src8, json8 := sizeOf(8)
	src12, json12 := sizeOf(12)
	t.Logf("8 messages: source %d bytes -> model %d bytes; 12 messages: source %d bytes -> model %d bytes", src8, json8, src12, json12)

	// 50 % more source must not give 16 times the model
	if json12 > 4*json8 {
		t.Errorf("the model grows exponentially with the number of member classes: %d bytes for 8 messages, %d bytes for 12 messages", json8, json12)
	}
	if json12 > 1000*src12 {
		t.Errorf("a source of %d bytes gives a model of %d bytes", src12, json12)
	}
}

// The full pass returns nothing at all for a file whose top-level class has three or more member classes:
// the listener keeps a pointer into classNodeQueue across an append, renames the queued outer class to the
// member class and files the outer class as a member of itself, so no type of the file reaches the result.
func TestDefect2_C09_ThreeMemberClassesNoResult(t *testing.T) {
	source := "package demo;\npublic final class R {\n" +
		"  public void z() { }\n" +
		"  public static final class attr { public static final int a = 1; }\n" +
		"  public static final class color { public static final int b = 2; }\n" +
		"  public static final class id { public static final int c = 3; }\n" +
		"}\n"
	nodes, p := defect2C09FullPass(t, source)
	if p != nil {
		t.Fatalf("full pass panicked: %v", p)
	}
	found := false
	for _, node := range nodes {
		if node.NodeName == "R" {
			found = true
		}
	}
	if !found {
		out, _ := json.Marshal(nodes)
		t.Errorf("the full pass returned no entry for class R (the whole file is missing from the result): %s", out)
	}
}
