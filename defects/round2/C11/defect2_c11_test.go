package tbs

import (
	"fmt"
	"os"
	"path/filepath"
	"strings"
	"testing"

	"github.com/modernizing/coca/pkg/adapter/cocafile"
	"github.com/modernizing/coca/pkg/application/analysis/javaapp"
	"github.com/modernizing/coca/pkg/domain/core_domain"
)

// defect2C11Analyse writes the tree below a temporary directory and runs the same pipeline as `coca tbs`
// (cmd/tbs.go): test file listing, identifier pass, full pass, TbsApp.AnalysisPath.
// A panic anywhere in the pipeline is reported as an error.
func defect2C11Analyse(t *testing.T, tree map[string]string) (results []TestBadSmell, err error) {
	t.Helper()
	dir := t.TempDir()
	for name, content := range tree {
		p := filepath.Join(dir, filepath.FromSlash(name))
		if mkErr := os.MkdirAll(filepath.Dir(p), 0o755); mkErr != nil {
			t.Fatal(mkErr)
		}
		if wErr := os.WriteFile(p, []byte(content), 0o644); wErr != nil {
			t.Fatal(wErr)
		}
	}

	defer func() {
		if r := recover(); r != nil {
			err = fmt.Errorf("panic: %v", r)
		}
	}()

	files := cocafile.GetJavaTestFiles(dir)
	identApp := javaapp.NewJavaIdentifierApp()
	identifiers := identApp.AnalysisFiles(files)
	identifiersMap := core_domain.BuildIdentifierMap(identifiers)
	fullApp := javaapp.NewJavaFullApp()
	classNodes := fullApp.AnalysisFiles(identifiers, files)
	return NewTbsApp().AnalysisPath(classNodes, identifiersMap), nil
}

func defect2C11LineOf(src string, marker string) int {
	for i, line := range strings.Split(src, "\n") {
		if strings.Contains(line, marker) {
			return i + 1
		}
	}
	return -1
}

func defect2C11Dump(results []TestBadSmell) string {
	var sb strings.Builder
	for _, r := range results {
		sb.WriteString(fmt.Sprintf("\n    %s %s:%d", r.Type, filepath.Base(r.FileName), r.Line))
	}
	return sb.String()
}

func defect2C11Count(results []TestBadSmell, typ string, line int) int {
	n := 0
	for _, r := range results {
		if r.Type == typ && (line < 0 || r.Line == line) {
			n++
		}
	}
	return n
}

// A helper method (no @Test/@Ignore) prints and sleeps; the test methods that call it neither print nor sleep,
// and every one of them makes an assertion. The property: methods without @Test/@Ignore never produce a finding,
// RedundantPrintTest/SleepyTest are reported for the prints/sleeps of the test method, DuplicateAssertTest when
// the test method calls one assertion method at least 5 times.
func TestDefect2_C11_HelperCallsReportedPerCallSite(t *testing.T) {
	src := `package com.x;

import org.junit.Test;
import static org.junit.Assert.*;

public class HelperTest {
    @Test
    public void usesHelperTwice() {
        prepare();
        prepare();
        assertEquals(1, value());
    }

    @Test
    public void usesHelperOnce() {
        prepare();
        assertTrue(ready());
    }

    @Test
    public void fiveRounds() {
        round();
        round();
        round();
        round();
        round();
    }

    private void prepare() throws Exception {
        System.out.println("preparing"); // PRINT
        Thread.sleep(10); // SLEEP
    }

    private void round() {
        assertEquals(2, value());
    }
}
`
	results, err := defect2C11Analyse(t, map[string]string{"HelperTest.java": src})
	if err != nil {
		t.Fatal(err)
	}

	printLine := defect2C11LineOf(src, "// PRINT")
	sleepLine := defect2C11LineOf(src, "// SLEEP")
	failed := false
	if n := defect2C11Count(results, "RedundantPrintTest", -1); n != 0 {
		failed = true
		t.Errorf("no test method prints, the helper prepare() is not a test method: want 0 RedundantPrintTest, got %d (%d of them at the helper's line %d)",
			n, defect2C11Count(results, "RedundantPrintTest", printLine), printLine)
	}
	if n := defect2C11Count(results, "SleepyTest", -1); n != 0 {
		failed = true
		t.Errorf("no test method sleeps, the helper prepare() is not a test method: want 0 SleepyTest, got %d (%d of them at the helper's line %d)",
			n, defect2C11Count(results, "SleepyTest", sleepLine), sleepLine)
	}
	if n := defect2C11Count(results, "DuplicateAssertTest", -1); n != 0 {
		failed = true
		t.Errorf("no test method calls an assertion method 5 times (fiveRounds calls the helper round(), whose body has one assertEquals): want 0 DuplicateAssertTest, got %d", n)
	}
	if n := defect2C11Count(results, "UnknownTest", -1); n != 0 {
		failed = true
		t.Errorf("every test asserts, directly or through a helper: want 0 UnknownTest, got %d", n)
	}
	if failed {
		t.Logf("findings:%s", defect2C11Dump(results))
	}
}

// A JUnit rule held in a field and initialised with an anonymous class (the usual @Rule TestWatcher idiom),
// between two test methods. The test methods below the field must be analysed like the ones above it.
func TestDefect2_C11_TestsAfterAnonymousClassFieldAreLost(t *testing.T) {
	src := `package com.x;

import org.junit.Ignore;
import org.junit.Rule;
import org.junit.Test;
import org.junit.rules.TestWatcher;
import org.junit.runner.Description;
import static org.junit.Assert.*;

public class WatchedTest {
    @Test
    public void above() throws Exception {
        Thread.sleep(5); // SLEEP-ABOVE
        assertTrue(ready());
    }

    @Rule
    public TestWatcher watcher = new TestWatcher() {
        @Override
        protected void failed(Throwable e, Description description) {
        }
    };

    @Test
    public void below() throws Exception {
        Thread.sleep(7); // SLEEP-BELOW
        System.out.println("below"); // PRINT-BELOW
        assertTrue(ready());
    }

    @Ignore
    @Test
    public void pending() { // PENDING
    }
}
`
	results, err := defect2C11Analyse(t, map[string]string{"src/test/java/com/x/WatchedTest.java": src})
	if err != nil {
		t.Fatal(err)
	}

	failed := false
	expect := func(typ string, line int, what string) {
		if n := defect2C11Count(results, typ, line); n != 1 {
			failed = true
			t.Errorf("%s: want 1 %s at line %d, got %d", what, typ, line, n)
		}
	}
	expect("SleepyTest", defect2C11LineOf(src, "// SLEEP-ABOVE"), "above() sleeps")
	expect("SleepyTest", defect2C11LineOf(src, "// SLEEP-BELOW"), "below() sleeps")
	expect("RedundantPrintTest", defect2C11LineOf(src, "// PRINT-BELOW"), "below() prints")
	expect("IgnoreTest", 0, "pending() is annotated @Ignore")
	expect("EmptyTest", defect2C11LineOf(src, "// PENDING"), "pending() is a @Test without a call")
	if failed {
		t.Logf("findings:%s", defect2C11Dump(results))
	}
}

// A nested static class (a stub used by the tests) between two test methods.
// The test methods above the nested class must be analysed like the ones below it.
func TestDefect2_C11_TestsBeforeNestedClassAreLost(t *testing.T) {
	src := `package com.x;

import org.junit.Ignore;
import org.junit.Test;
import static org.junit.Assert.*;

public class StubbedTest {
    @Test
    public void above() throws Exception {
        Thread.sleep(5); // SLEEP-ABOVE
        System.out.println("above"); // PRINT-ABOVE
        assertTrue(ready());
    }

    @Ignore
    @Test
    public void pending() { // PENDING
    }

    static class Stub {
        int answer() {
            return 42;
        }
    }

    @Test
    public void below() throws Exception {
        Thread.sleep(7); // SLEEP-BELOW
        assertTrue(ready());
    }
}
`
	results, err := defect2C11Analyse(t, map[string]string{"src/test/java/com/x/StubbedTest.java": src})
	if err != nil {
		t.Fatal(err)
	}

	failed := false
	expect := func(typ string, line int, what string) {
		if n := defect2C11Count(results, typ, line); n != 1 {
			failed = true
			t.Errorf("%s: want 1 %s at line %d, got %d", what, typ, line, n)
		}
	}
	expect("SleepyTest", defect2C11LineOf(src, "// SLEEP-ABOVE"), "above() sleeps")
	expect("RedundantPrintTest", defect2C11LineOf(src, "// PRINT-ABOVE"), "above() prints")
	expect("IgnoreTest", 0, "pending() is annotated @Ignore")
	expect("EmptyTest", defect2C11LineOf(src, "// PENDING"), "pending() is a @Test without a call")
	expect("SleepyTest", defect2C11LineOf(src, "// SLEEP-BELOW"), "below() sleeps")
	if n := len(results); n != 5 {
		failed = true
		t.Errorf("want 5 findings in all, got %d", n)
	}
	if failed {
		t.Logf("findings:%s", defect2C11Dump(results))
	}
}
