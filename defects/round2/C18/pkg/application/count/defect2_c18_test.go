package count

import (
	"os"
	"path/filepath"
	"testing"

	"github.com/modernizing/coca/cocatest/testhelper"
	"github.com/modernizing/coca/pkg/domain/core_domain"
)

// Defect D: a call site `new Foo(..)` is recorded under the name "p.Foo" (CodeCall.BuildFullMethodName, constructor
// branch) while the declared constructor is registered as "p.Foo.Foo" (CodeFunction.BuildFullMethodName): the two
// never meet, so a declared constructor has no reference count however often it is called.
func TestDefect2_C18_ConstructorCalls(t *testing.T) {
	dir := t.TempDir()
	files := map[string]string{"Foo.java": `package p;

public class Foo {
    private int x;

    public Foo() {
        this.x = 0;
    }

    public Foo(int x) {
        this.x = x;
    }

    public int value() {
        return x;
    }
}
`, "User.java": `package p;

public class User {
    public int use() {
        Foo a = new Foo();
        Foo b = new Foo(1);
        Foo c = new Foo(2);
        return a.value() + b.value();
    }
}
`}
	for name, content := range files {
		if err := os.WriteFile(filepath.Join(dir, name), []byte(content), 0644); err != nil {
			t.Fatal(err)
		}
	}

	var callNodes []core_domain.CodeDataStruct
	var callMap map[string]int
	func() {
		defer func() {
			if r := recover(); r != nil {
				t.Fatalf("panic: %v", r)
			}
		}()
		callNodes, _, _ = testhelper.BuildAnalysisDeps(dir)
		callMap = BuildCallMap(callNodes)
	}()

	// what the model contains
	declaredConstructors := 0
	creatorCalls := 0
	for _, clz := range callNodes {
		for _, method := range clz.Functions {
			if clz.NodeName == "Foo" && method.IsConstructor {
				declaredConstructors++
			}
			for _, call := range method.FunctionCalls {
				if call.Type == "CreatorClass" && call.Package == "p" && call.NodeName == "Foo" {
					creatorCalls++
				}
			}
		}
	}
	if declaredConstructors != 2 || creatorCalls != 3 {
		t.Fatalf("unexpected model: %d declared constructors of p.Foo, %d recorded `new Foo(..)` call sites", declaredConstructors, creatorCalls)
	}

	t.Logf("callMap = %v", callMap)
	if callMap["p.Foo.value"] != 2 {
		t.Errorf("p.Foo.value: %d references, want 2", callMap["p.Foo.value"])
	}
	// the constructor of p.Foo is a declared project method with 3 recorded call sites: whichever of its two
	// names the count uses, it must be listed with 3 references
	if callMap["p.Foo"] != 3 && callMap["p.Foo.Foo"] != 3 {
		t.Errorf("the declared constructor of p.Foo is called 3 times, but the count lists it %d (as p.Foo) / %d (as p.Foo.Foo) times",
			callMap["p.Foo"], callMap["p.Foo.Foo"])
	}
	total := 0
	for _, n := range callMap {
		total += n
	}
	if total != 5 {
		t.Errorf("sum of the reference counts = %d, the model records 5 call sites of declared project methods (3 x new Foo, 2 x value)", total)
	}
}
