package evaluate

import (
	"fmt"
	"os"
	"path/filepath"
	"sort"
	"strings"
	"testing"

	"github.com/modernizing/coca/cocatest/testhelper"
	"github.com/modernizing/coca/pkg/application/evaluate/evaluator"
	"github.com/modernizing/coca/pkg/domain/core_domain"
)

// c18Evaluate writes the given Java sources into a fresh directory, runs the two real passes
// (identifier pass + full pass) over it and evaluates the result, exactly like `coca analysis` + `coca evaluate`.
func c18Evaluate(t *testing.T, files map[string]string) (result evaluator.EvaluateModel, identifiers []core_domain.CodeDataStruct, panicked interface{}) {
	t.Helper()
	dir := t.TempDir()
	for name, content := range files {
		if err := os.WriteFile(filepath.Join(dir, name), []byte(content), 0644); err != nil {
			t.Fatal(err)
		}
	}
	defer func() {
		if r := recover(); r != nil {
			panicked = r
		}
	}()
	callNodes, _, idents := testhelper.BuildAnalysisDeps(dir)
	identifiers = idents
	result = NewEvaluateAnalyser().Analysis(callNodes, identifiers)
	return
}

func c18Describe(identifiers []core_domain.CodeDataStruct) string {
	var out []string
	for _, ident := range identifiers {
		var names []string
		for _, f := range ident.Functions {
			names = append(names, fmt.Sprintf("%q", f.Name))
		}
		out = append(out, fmt.Sprintf("%s.%s[%s]", ident.Package, ident.NodeName, strings.Join(names, ",")))
	}
	return strings.Join(out, " ")
}

func c18Sorted(items []string) []string {
	out := append([]string{}, items...)
	sort.Strings(out)
	return out
}

// Defect A: a class body nested in a class (a member class, or an anonymous class inside a method) ends the
// enclosing class in the identifier pass: the classes, methods, static methods and nullable methods of the
// evaluation summary no longer equal what the source contains.
func TestDefect2_C18_NestedClassBody(t *testing.T) {
	t.Run("member class", func(t *testing.T) {
		// 2 classes (Outer, Inner), 3 methods (a, b, c), 1 static method (c), 1 nullable method (p.Outer.c)
		result, identifiers, panicked := c18Evaluate(t, map[string]string{"Outer.java": `package p;

public class Outer {
    void a() {
    }

    class Inner {
        void b() {
        }
    }

    static String c() {
        return null;
    }
}
`})
		if panicked != nil {
			t.Fatalf("panic: %v", panicked)
		}
		t.Logf("identifiers: %s", c18Describe(identifiers))
		if result.Summary.ClassCount != 2 {
			t.Errorf("ClassCount = %d, the source declares 2 classes (Outer, Inner)", result.Summary.ClassCount)
		}
		if result.Summary.MethodCount != 3 {
			t.Errorf("MethodCount = %d, the source declares 3 methods (a, b, c)", result.Summary.MethodCount)
		}
		if result.Summary.StaticMethodCount != 1 {
			t.Errorf("StaticMethodCount = %d, the source declares 1 static method (Outer.c)", result.Summary.StaticMethodCount)
		}
		if got := c18Sorted(result.Nullable.Items); len(got) != 1 || got[0] != "p.Outer.c" {
			t.Errorf("Nullable.Items = %v, want [p.Outer.c]", got)
		}
		for _, ident := range identifiers {
			if ident.NodeName == "Inner" {
				for _, f := range ident.Functions {
					if f.Name == "a" {
						t.Errorf("method a of Outer is listed as a method of Inner")
					}
				}
			}
		}
	})

	t.Run("anonymous class in a method", func(t *testing.T) {
		// 1 class (Outer) with the methods a and b (and, at most, the run of the anonymous Runnable):
		// b is static, a returns null
		result, identifiers, panicked := c18Evaluate(t, map[string]string{"Outer.java": `package p;

public class Outer {
    String a() {
        Runnable r = new Runnable() {
            public void run() {
            }
        };
        r.run();
        return null;
    }

    static void b() {
    }
}
`})
		if panicked != nil {
			t.Fatalf("panic: %v", panicked)
		}
		t.Logf("identifiers: %s", c18Describe(identifiers))
		if result.Summary.ClassCount != 1 {
			t.Errorf("ClassCount = %d, want 1", result.Summary.ClassCount)
		}
		if result.Summary.MethodCount != 2 && result.Summary.MethodCount != 3 {
			t.Errorf("MethodCount = %d, the source declares Outer.a and Outer.b (plus run of the anonymous class): want 2 or 3", result.Summary.MethodCount)
		}
		if result.Summary.StaticMethodCount != 1 {
			t.Errorf("StaticMethodCount = %d, the source declares 1 static method (Outer.b)", result.Summary.StaticMethodCount)
		}
		if got := c18Sorted(result.Nullable.Items); len(got) != 1 || got[0] != "p.Outer.a" {
			t.Errorf("Nullable.Items = %v, want [p.Outer.a]", got)
		}
	})
}

// Defect B: `static` on an interface method is never recorded, so static interface methods are not counted.
func TestDefect2_C18_InterfaceStaticMethod(t *testing.T) {
	result, identifiers, panicked := c18Evaluate(t, map[string]string{"Ids.java": `package p;

public interface Ids {
    static int one() {
        return 1;
    }

    public static int two() {
        return 2;
    }

    static public int three() {
        return 3;
    }

    int four();
}
`})
	if panicked != nil {
		t.Fatalf("panic: %v", panicked)
	}
	for _, ident := range identifiers {
		for _, f := range ident.Functions {
			t.Logf("%s.%s modifiers=%v", ident.NodeName, f.Name, f.Modifiers)
		}
	}
	if result.Summary.MethodCount != 4 {
		t.Errorf("MethodCount = %d, want 4", result.Summary.MethodCount)
	}
	if result.Summary.StaticMethodCount != 3 {
		t.Errorf("StaticMethodCount = %d, the source declares 3 static methods (one, two, three)", result.Summary.StaticMethodCount)
	}
}

// Defect C: a `return null;` that belongs to a lambda body is booked on the enclosing method, which is then
// listed as nullable although it never returns null.
func TestDefect2_C18_LambdaReturnNull(t *testing.T) {
	result, _, panicked := c18Evaluate(t, map[string]string{"Jobs.java": `package p;

import java.util.concurrent.Callable;

public class Jobs {
    public String name() {
        Callable<Void> job = () -> {
            System.out.println("run");
            return null;
        };
        return "jobs";
    }

    public String find(int key) {
        if (key < 0) {
            return null;
        }
        return "value";
    }
}
`})
	if panicked != nil {
		t.Fatalf("panic: %v", panicked)
	}
	got := c18Sorted(result.Nullable.Items)
	if len(got) != 1 || got[0] != "p.Jobs.find" {
		t.Errorf("Nullable.Items = %v, want [p.Jobs.find]: name() returns the literal \"jobs\" on its only path", got)
	}
}
