package cmd

import (
	"bytes"
	"io/ioutil"
	"os"
	"os/exec"
	"path/filepath"
	"sort"
	"strings"
	"testing"
)

// Property C08: the same command on the same history gives the same git summary (as a collection of rows).
// `coca git -t -f -s 2` (team summary, the first 2 rows) on a history whose files all have one revision
// prints a different pair of files from run to run: the rows come out of a map, the sort has one key
// (the revision count) and the table is cut after the sort.
func TestDefect2_C08_GitTopNTies(t *testing.T) {
	dir, err := ioutil.TempDir("", "c08git")
	if err != nil {
		t.Fatal(err)
	}
	defer os.RemoveAll(dir)

	git := func(args ...string) {
		c := exec.Command("git", args...)
		c.Dir = dir
		c.Env = append(os.Environ(),
			"GIT_AUTHOR_NAME=ann", "GIT_AUTHOR_EMAIL=ann@example.org", "GIT_AUTHOR_DATE=2020-01-02T03:04:05",
			"GIT_COMMITTER_NAME=ann", "GIT_COMMITTER_EMAIL=ann@example.org", "GIT_COMMITTER_DATE=2020-01-02T03:04:05",
			"GIT_CONFIG_NOSYSTEM=1", "HOME="+dir)
		if out, err := c.CombinedOutput(); err != nil {
			t.Fatalf("git %v: %v\n%s", args, err, out)
		}
	}
	git("init", "-q")
	// one commit, six files: every file has exactly one revision, one author and the same date
	for _, name := range []string{"a.txt", "b.txt", "c.txt", "d.txt", "e.txt", "f.txt"} {
		if err := ioutil.WriteFile(filepath.Join(dir, name), []byte(name+"\n"), 0644); err != nil {
			t.Fatal(err)
		}
	}
	git("add", ".")
	git("commit", "-q", "-m", "feat: six files")

	wd, _ := os.Getwd()
	if err := os.Chdir(dir); err != nil {
		t.Fatal(err)
	}
	defer os.Chdir(wd)

	run := func(flag string) string {
		buf := new(bytes.Buffer)
		root := NewRootCmd(buf)
		// every switch is given: the flag values of an earlier command of the process are kept otherwise
		args := []string{"git", "-f", "-s", "2", "-b=false", "-m=false", "-r", "", "-t=false", "-a=false", "-o=false", flag}
		root.SetArgs(args)
		if err := root.Execute(); err != nil {
			t.Fatal(err)
		}
		// the rows of the table, as a collection; the month column of the age table moves with the clock, the name does not
		var rows []string
		for _, line := range strings.Split(buf.String(), "\n") {
			if strings.Contains(line, ".txt") || strings.Contains(line, "ann") {
				cells := strings.Split(line, "|")
				if len(cells) > 1 {
					rows = append(rows, strings.TrimSpace(cells[1]))
				}
			}
		}
		sort.Strings(rows)
		return strings.Join(rows, ",")
	}

	for _, flag := range []string{"-t=true", "-a=true"} {
		seen := map[string]int{}
		for i := 0; i < 40; i++ {
			seen[run(flag)]++
		}
		if len(seen) != 1 {
			t.Errorf("coca git %s -f -s 2, 40 runs on one history: %d different tables (first column of the rows): %v", flag, len(seen), seen)
		}
	}
}
