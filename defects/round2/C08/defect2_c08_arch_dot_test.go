package tequila

import (
	"fmt"
	"regexp"
	"sort"
	"strings"
	"testing"
)

// Property C08: the architecture report of one model is the same on every run.
// ToMapDot / ToDot (the text of coca_reporter/arch.dot) number the nodes and the clusters, and write the edges,
// in map order: the same FullGraph gives a different node numbering, hence a different set of
// `nodeX->nodeY` statements, from call to call. (With the ids replaced by the labels the graphs are the same;
// the file, the edge statements in it and the layout dot computes from their order are not.)
func TestDefect2_C08_ArchDotNumbering(t *testing.T) {
	g := &FullGraph{NodeList: map[string]string{}, RelationList: map[string]*Relation{}}
	for _, n := range []string{"p.a.A", "p.a.B", "p.b.C", "p.b.D", "q.E"} {
		g.NodeList[n] = n
	}
	add := func(from, to string) {
		g.RelationList[from+"->"+to] = &Relation{From: from, To: to, Style: "\"solid\""}
	}
	add("p.a.A", "p.a.B")
	add("p.a.A", "p.b.C")
	add("p.b.D", "q.E")
	all := func(string) bool { return true }

	edgeReg := regexp.MustCompile(`node\d+->node\d+`)
	edgeSet := func(dot string) string {
		edges := edgeReg.FindAllString(dot, -1)
		sort.Strings(edges)
		return strings.Join(edges, " ")
	}

	for name, render := range map[string]func() string{
		"ToMapDot": func() string { return g.ToMapDot(all).String() },
		"ToDot":    func() string { return g.ToDot(".", all).String() },
	} {
		texts := map[string]int{}
		edges := map[string]int{}
		for i := 0; i < 40; i++ {
			dot := render()
			texts[dot]++
			edges[edgeSet(dot)]++
		}
		if len(edges) != 1 || len(texts) != 1 {
			t.Errorf("%s, one graph rendered 40 times: %d different texts, %d different edge sets: %s",
				name, len(texts), len(edges), fmt.Sprint(edges))
		}
	}
}
