package bs

import (
	"io/ioutil"
	"os"
	"path/filepath"
	"sort"
	"strings"
	"testing"

	"github.com/modernizing/coca/pkg/domain/bs_domain"
)

// Property C08: the same command on the same input gives the same bad-smell list (as a collection) on every run.
// Two identical analyses in one process give two different lists: the second one repeats every
// graphConnectedCall entry of the first one.
func TestDefect2_C08_GraphCallAccumulates(t *testing.T) {
	dir, err := ioutil.TempDir("", "c08graph")
	if err != nil {
		t.Fatal(err)
	}
	defer os.RemoveAll(dir)

	write := func(name, body string) {
		if err := ioutil.WriteFile(filepath.Join(dir, name), []byte(body), 0644); err != nil {
			t.Fatal(err)
		}
	}
	// A uses B and C, B uses C: one connected path A->B->C next to the direct edge A->C
	write("A.java", "package g;\n\npublic class A {\n    private B b;\n    private C c;\n\n    public void hi() {\n        b.hi();\n        c.hi();\n    }\n}\n")
	write("B.java", "package g;\n\npublic class B {\n    private C c;\n\n    public void hi() {\n        c.hi();\n    }\n}\n")
	write("C.java", "package g;\n\npublic class C {\n    public void hi() {\n    }\n}\n")

	run := func() []string {
		app := NewBadSmellApp()
		nodes := app.AnalysisPath(dir)
		list := app.IdentifyBadSmell(nodes, nil)
		return canonSmells(list)
	}

	first := run()
	second := run()

	if strings.Join(first, "\n") != strings.Join(second, "\n") {
		t.Errorf("same directory, same arguments, two runs:\nrun 1 (%d entries):\n  %s\nrun 2 (%d entries):\n  %s",
			len(first), strings.Join(first, "\n  "), len(second), strings.Join(second, "\n  "))
	}
}

func canonSmells(list []bs_domain.BadSmellModel) []string {
	var out []string
	for _, m := range list {
		out = append(out, m.Bs+"|"+filepath.Base(m.File)+"|"+m.Line+"|"+m.Description)
	}
	sort.Strings(out)
	return out
}
