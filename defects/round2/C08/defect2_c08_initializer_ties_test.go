package call_test

import (
	"fmt"
	"io/ioutil"
	"os"
	"path/filepath"
	"sort"
	"strings"
	"testing"

	"github.com/modernizing/coca/pkg/application/analysis/javaapp"
	"github.com/modernizing/coca/pkg/application/call"
)

// Property C08: the code model may differ between runs in the order of the functions of a type only, and the call
// edge set derived from it is the same on every run.
// The calls made by field initializers are kept in unnamed functions at position 0:0; a class whose initializers
// stand after different methods gets several of them, SetMethodFromMap cannot tell them apart (same position,
// same name) and leaves them in map order. The call graph spends its budget of 7 steps in that order: the edges
// under the first initializer are drawn, those under the second one are cut.
func TestDefect2_C08_InitializerFunctionsTie(t *testing.T) {
	dir, err := ioutil.TempDir("", "c08init")
	if err != nil {
		t.Fatal(err)
	}
	defer os.RemoveAll(dir)
	if err := os.MkdirAll(filepath.Join(dir, "p"), 0755); err != nil {
		t.Fatal(err)
	}

	chain := func(class, prefix string) string {
		var sb strings.Builder
		fmt.Fprintf(&sb, "package p;\n\npublic class %s {\n", class)
		for i := 1; i <= 8; i++ {
			fmt.Fprintf(&sb, "    public static %s %s%d() {\n        return %s.%s%d();\n    }\n\n", class, prefix, i, class, prefix, i+1)
		}
		fmt.Fprintf(&sb, "    public static %s %s9() {\n        return null;\n    }\n}\n", class, prefix)
		return sb.String()
	}
	files := map[string]string{
		"A.java": chain("A", "a"),
		"B.java": chain("B", "b"),
		"S.java": "package p;\n\npublic class S {\n" +
			"    void m1() {\n    }\n\n" +
			"    void m2() {\n    }\n\n" +
			"    private A fa = A.a1();\n\n" +
			"    void m3() {\n    }\n\n" +
			"    private B fb = B.b1();\n" +
			"}\n",
	}
	for name, body := range files {
		if err := ioutil.WriteFile(filepath.Join(dir, "p", name), []byte(body), 0644); err != nil {
			t.Fatal(err)
		}
	}

	run := func() string {
		identApp := javaapp.NewJavaIdentifierApp()
		idents := identApp.AnalysisPath(dir)
		fullApp := javaapp.NewJavaFullApp()
		deps := fullApp.AnalysisPath(dir, idents)

		// coca call -c p.S.   (the calls of the initializers of S)
		dot := call.NewCallGraph().Analysis("p.S.", deps, false)
		var edges []string
		for _, line := range strings.Split(dot, "\n") {
			if strings.Contains(line, " -> ") {
				edges = append(edges, strings.TrimSpace(line))
			}
		}
		sort.Strings(edges)
		return strings.Join(edges, "\n")
	}

	seen := map[string]int{}
	for i := 0; i < 40; i++ {
		seen[run()]++
	}
	if len(seen) != 1 {
		msg := ""
		for edges, n := range seen {
			msg += fmt.Sprintf("\n--- %d run(s):\n%s", n, edges)
		}
		t.Errorf("one source tree, one start function, 40 runs: %d different call edge sets%s", len(seen), msg)
	}
}
