package rcall

import (
	"encoding/json"
	"strings"
	"testing"

	"github.com/modernizing/coca/pkg/domain/core_domain"
)

// The model below has the shape `coca analysis` gives deps.json for
//
//	package p;
//	public class Service { public void run() {} }
//
//	package p;
//	public class Outer {
//	    private Service service;
//	    public void top() { service.run(); }
//	    public static class Inner {
//	        private Service service;
//	        public void helper() { service.run(); }
//	        public void leaf() {}
//	    }
//	}
//
//	package p;
//	public class Client { public void main() { Inner inner = new Inner(); inner.leaf(); } }
//
// reduced to the fields the reverse call graph reads: the Java front end (java_full_listener.go, exitBody)
// stores a nested class under InnerStructures of the enclosing class, never as a top-level entry of the
// model, with Package = the file's package and NodeName = the simple name of the nested class.
const defect2C04InnerModel = `[
 {"NodeName":"Service","Type":"Class","Package":"p",
  "Functions":[{"Name":"run","ReturnType":"void"}]},
 {"NodeName":"Outer","Type":"Class","Package":"p",
  "Functions":[{"Name":"top","ReturnType":"void",
     "FunctionCalls":[{"Package":"p","Type":"same package","NodeName":"Service","FunctionName":"run"}]}],
  "InnerStructures":[
   {"NodeName":"Inner","Type":"InnerStructures","Package":"p",
    "Functions":[
      {"Name":"helper","ReturnType":"void",
       "FunctionCalls":[{"Package":"p","Type":"same package","NodeName":"Service","FunctionName":"run"}]},
      {"Name":"leaf","ReturnType":"void"}
    ]}
  ]},
 {"NodeName":"Client","Type":"Class","Package":"p",
  "Functions":[{"Name":"main","ReturnType":"void",
     "FunctionCalls":[{"Package":"p","Type":"same package","NodeName":"Inner","FunctionName":"leaf"}]}]}
]`

func TestDefect2_C04_InnerStructures(t *testing.T) {
	defer func() {
		if r := recover(); r != nil {
			t.Fatalf("panic: %v", r)
		}
	}()

	var model []core_domain.CodeDataStruct
	if err := json.Unmarshal([]byte(defect2C04InnerModel), &model); err != nil {
		t.Fatal(err)
	}

	var rcallMap map[string][]string
	dot := NewRCallGraph().Analysis("p.Service.run", model, func(m map[string][]string) { rcallMap = m })

	// 1. a method of the project that calls the target: p.Inner.helper (declared in the nested class)
	callers := strings.Join(rcallMap["p.Service.run"], ",")
	if callers != "p.Outer.top,p.Inner.helper" {
		t.Errorf("callers of p.Service.run: want [p.Outer.top p.Inner.helper] (one per call site), got %v", rcallMap["p.Service.run"])
	}
	if !strings.Contains(dot, `"p.Inner.helper" -> "p.Service.run";`) {
		t.Errorf("direct caller p.Inner.helper of the target is missing from the graph:\n%s", dot)
	}

	// 2. a method of the project that is called: p.Inner.leaf is declared (in the nested class), p.Client.main calls it
	if got := rcallMap["p.Inner.leaf"]; len(got) != 1 || got[0] != "p.Client.main" {
		t.Errorf("callers of p.Inner.leaf: want [p.Client.main], got %v", got)
	}
	dot = NewRCallGraph().Analysis("p.Inner.leaf", model, func(m map[string][]string) {})
	if !strings.Contains(dot, `"p.Client.main" -> "p.Inner.leaf";`) {
		t.Errorf("direct caller p.Client.main of target p.Inner.leaf is missing from the graph:\n%s", dot)
	}
}
