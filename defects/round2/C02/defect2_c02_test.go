package javaapp

import (
	"fmt"
	"os"
	"path/filepath"
	"strings"
	"testing"

	"github.com/modernizing/coca/pkg/domain/core_domain"
)

// ---- helpers (prefix d2c02 to avoid clashes) ----

// d2c02Analyse writes the given files (relative path -> source) into a fresh temporary
// directory and runs the two real passes: JavaIdentifierApp and JavaFullApp.
func d2c02Analyse(t *testing.T, files map[string]string) (nodes []core_domain.CodeDataStruct) {
	t.Helper()
	dir := t.TempDir()
	for name, src := range files {
		p := filepath.Join(dir, filepath.FromSlash(name))
		if err := os.MkdirAll(filepath.Dir(p), 0755); err != nil {
			t.Fatal(err)
		}
		if err := os.WriteFile(p, []byte(src), 0644); err != nil {
			t.Fatal(err)
		}
	}
	defer func() {
		if r := recover(); r != nil {
			t.Fatalf("analysis panicked: %v", r)
		}
	}()
	identApp := NewJavaIdentifierApp()
	iNodes := identApp.AnalysisPath(dir)
	app := NewJavaFullApp()
	return app.AnalysisPath(dir, iNodes)
}

func d2c02Class(nodes []core_domain.CodeDataStruct, pkg, name string) *core_domain.CodeDataStruct {
	for i := range nodes {
		if nodes[i].Package == pkg && nodes[i].NodeName == name {
			return &nodes[i]
		}
	}
	return nil
}

func d2c02Func(clz *core_domain.CodeDataStruct, name string) *core_domain.CodeFunction {
	if clz == nil {
		return nil
	}
	for i := range clz.Functions {
		if clz.Functions[i].Name == name {
			return &clz.Functions[i]
		}
	}
	return nil
}

// one line per call: "<package>|<NodeName>|<FunctionName>"
func d2c02Calls(fn *core_domain.CodeFunction) []string {
	var out []string
	if fn == nil {
		return out
	}
	for _, c := range fn.FunctionCalls {
		out = append(out, c.Package+"|"+c.NodeName+"|"+c.FunctionName)
	}
	return out
}

func d2c02Dump(nodes []core_domain.CodeDataStruct) string {
	var b strings.Builder
	for _, n := range nodes {
		fmt.Fprintf(&b, "class %q.%q\n", n.Package, n.NodeName)
		for _, f := range n.Functions {
			fmt.Fprintf(&b, "  func %q\n", f.Name)
			for _, c := range f.FunctionCalls {
				fmt.Fprintf(&b, "    call pkg=%q node=%q fn=%q type=%q pos=%v\n", c.Package, c.NodeName, c.FunctionName, c.Type, c.Position)
			}
		}
	}
	return b.String()
}

func d2c02Equal(a, b []string) bool {
	if len(a) != len(b) {
		return false
	}
	for i := range a {
		if a[i] != b[i] {
			return false
		}
	}
	return true
}

const d2c02Helper = `package p.r;

public class Helper {
    public void run() { }
}
`

// ---- defect 1: a `new` inside an anonymous class ends the "anonymous class" mode early ----

func TestDefect2_C02_AnonymousClassWithNew(t *testing.T) {
	tmpl := `package p.a;

import p.r.Helper;

public class A {
    void m(Helper outer) {
        before();
        Runnable r = new Runnable() {
            public void run() {
                %s
            }
        };
        after();
    }
    void n() {
        last();
    }
    void before() { }
    void after() { }
    void last() { }
}
`
	// control: the anonymous class contains no `new` -> everything is recorded
	control := d2c02Analyse(t, map[string]string{
		"p/r/Helper.java": d2c02Helper,
		"p/a/A.java":      fmt.Sprintf(tmpl, "outer.run();"),
	})
	wantControl := []string{"p.a|A|before", "|Runnable|", "p.r|Helper|run", "p.a|A|after"}
	if got := d2c02Calls(d2c02Func(d2c02Class(control, "p.a", "A"), "m")); !d2c02Equal(got, wantControl) {
		t.Fatalf("control (no `new` in the anonymous class) is not as expected: %v\n%s", got, d2c02Dump(control))
	}

	nodes := d2c02Analyse(t, map[string]string{
		"p/r/Helper.java": d2c02Helper,
		"p/a/A.java":      fmt.Sprintf(tmpl, "Helper h = new Helper(); h.run();"),
	})
	a := d2c02Class(nodes, "p.a", "A")
	if a == nil {
		t.Fatalf("class p.a.A missing\n%s", d2c02Dump(nodes))
	}
	want := []string{"p.a|A|before", "|Runnable|", "p.r|Helper|", "p.r|Helper|run", "p.a|A|after"}
	if got := d2c02Calls(d2c02Func(a, "m")); !d2c02Equal(got, want) {
		t.Errorf("calls of A.m:\n got  %v\n want %v", got, want)
	}
	n := d2c02Func(a, "n")
	if n == nil {
		t.Errorf("method A.n (declared after the anonymous class) is missing from class A")
	} else if got := d2c02Calls(n); !d2c02Equal(got, []string{"p.a|A|last"}) {
		t.Errorf("calls of A.n: got %v want [p.a|A|last]", got)
	}
	for _, name := range []string{"before", "after", "last"} {
		if d2c02Func(a, name) == nil {
			t.Errorf("method A.%s is missing from class A", name)
		}
	}
	if t.Failed() {
		t.Logf("model:\n%s", d2c02Dump(nodes))
	}
}

// ---- defect 2: `new Outer.Inner()` / `new java.util.ArrayList<>()` record the qualifier, not the created type ----

func TestDefect2_C02_QualifiedNew(t *testing.T) {
	nodes := d2c02Analyse(t, map[string]string{
		"p/r/Outer.java": `package p.r;

public class Outer {
    public static class Inner { }
}
`,
		"p/a/A.java": `package p.a;

import p.r.Outer;

public class A {
    void m() {
        Object a = new Outer.Inner();
        Object b = new java.util.ArrayList<String>();
    }
    void k() {
        Object c = new Outer.Inner() { };
    }
}
`,
	})
	a := d2c02Class(nodes, "p.a", "A")
	m := d2c02Func(a, "m")
	if m == nil {
		t.Fatalf("A.m missing\n%s", d2c02Dump(nodes))
	}
	if len(m.FunctionCalls) != 2 {
		t.Fatalf("A.m has two `new` expressions, recorded %d calls\n%s", len(m.FunctionCalls), d2c02Dump(nodes))
	}
	if got := m.FunctionCalls[0].NodeName; got != "Inner" && got != "Outer.Inner" {
		t.Errorf("`new Outer.Inner()` must carry the created type (Inner / Outer.Inner), recorded NodeName %q (package %q)", got, m.FunctionCalls[0].Package)
	}
	if got := m.FunctionCalls[1].NodeName; got != "ArrayList" && got != "java.util.ArrayList" {
		t.Errorf("`new java.util.ArrayList<String>()` must carry the created type (ArrayList), recorded NodeName %q (package %q)", got, m.FunctionCalls[1].Package)
	}
	k := d2c02Func(a, "k")
	if k == nil {
		t.Fatalf("A.k missing\n%s", d2c02Dump(nodes))
	}
	if len(k.FunctionCalls) != 1 {
		t.Errorf("A.k has ONE `new` expression (`new Outer.Inner() { }`), recorded %d creations: %v", len(k.FunctionCalls), d2c02Calls(k))
	}
	if t.Failed() {
		t.Logf("model:\n%s", d2c02Dump(nodes))
	}
}

// ---- defect 3: the variable of for-each / try-with-resources / catch is not a known local ----

func TestDefect2_C02_ForEachResourceCatchVariables(t *testing.T) {
	nodes := d2c02Analyse(t, map[string]string{
		"p/r/Helper.java": d2c02Helper,
		"p/r/Conn.java": `package p.r;

public class Conn implements AutoCloseable {
    public void send() { }
    public void close() { }
}
`,
		"p/r/HelperException.java": `package p.r;

public class HelperException extends RuntimeException {
    public void report() { }
}
`,
		"p/a/A.java": `package p.a;

import java.util.List;
import p.r.Conn;
import p.r.Helper;
import p.r.HelperException;

public class A {
    void plain(List<Helper> helpers) {
        Helper first = helpers.get(0);
        first.run();
    }
    void each(List<Helper> helpers) {
        for (Helper h : helpers) {
            h.run();
        }
    }
    void resource() {
        try (Conn conn = open()) {
            conn.send();
        }
    }
    void caught() {
        try {
            open();
        } catch (HelperException ex) {
            ex.report();
        }
    }
    Conn open() { return null; }
}
`,
	})
	a := d2c02Class(nodes, "p.a", "A")
	if a == nil {
		t.Fatalf("class p.a.A missing\n%s", d2c02Dump(nodes))
	}
	// control: an ordinary local of the same type is resolved
	if got := d2c02Calls(d2c02Func(a, "plain")); len(got) != 2 || got[1] != "p.r|Helper|run" {
		t.Fatalf("control (ordinary local variable) not as expected: %v", got)
	}
	if got, want := d2c02Calls(d2c02Func(a, "each")), []string{"p.r|Helper|run"}; !d2c02Equal(got, want) {
		t.Errorf("for (Helper h : helpers) h.run():\n got  %v\n want %v", got, want)
	}
	if got, want := d2c02Calls(d2c02Func(a, "resource")), []string{"p.a|A|open", "p.r|Conn|send"}; !d2c02Equal(got, want) {
		t.Errorf("try (Conn conn = open()) conn.send():\n got  %v\n want %v", got, want)
	}
	if got, want := d2c02Calls(d2c02Func(a, "caught")), []string{"p.a|A|open", "p.r|HelperException|report"}; !d2c02Equal(got, want) {
		t.Errorf("catch (HelperException ex) ex.report():\n got  %v\n want %v", got, want)
	}
}

// ---- defect 4: a class of the own package is shadowed by a same-named class of another package ----

func TestDefect2_C02_SamePackageClassShadowed(t *testing.T) {
	other := func(pkg string) string {
		return "package " + pkg + ";\n\npublic class Helper {\n    public void run() { }\n}\n"
	}
	nodes := d2c02Analyse(t, map[string]string{
		// two unrelated classes called Helper, one sorted before and one after p.r
		"p/b/Helper.java": other("p.b"),
		"p/z/Helper.java": other("p.z"),
		// the class the source means: same package, no import needed
		"p/r/Helper.java": d2c02Helper,
		"p/r/A.java": `package p.r;

public class A {
    private Helper field;

    void m(Helper param) {
        param.run();
        field.run();
        Helper local = new Helper();
        local.run();
    }
}
`,
	})
	a := d2c02Class(nodes, "p.r", "A")
	if a == nil {
		t.Fatalf("class p.r.A missing\n%s", d2c02Dump(nodes))
	}
	want := []string{"p.r|Helper|run", "p.r|Helper|run", "p.r|Helper|", "p.r|Helper|run"}
	if got := d2c02Calls(d2c02Func(a, "m")); !d2c02Equal(got, want) {
		t.Errorf("p.r.A uses the Helper of its own package (p.r.Helper):\n got  %v\n want %v", got, want)
	}
}
