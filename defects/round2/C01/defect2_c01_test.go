package javaapp

import (
	"fmt"
	"os"
	"path/filepath"
	"sort"
	"strings"
	"testing"

	"github.com/modernizing/coca/pkg/domain/core_domain"
)

// helpers --------------------------------------------------------------------

func d2c01WriteTree(t *testing.T, files map[string]string) string {
	t.Helper()
	dir := t.TempDir()
	for name, content := range files {
		p := filepath.Join(dir, filepath.FromSlash(name))
		if err := os.MkdirAll(filepath.Dir(p), 0o755); err != nil {
			t.Fatal(err)
		}
		if err := os.WriteFile(p, []byte(content), 0o644); err != nil {
			t.Fatal(err)
		}
	}
	return dir
}

// both passes over one tree, exactly as cmd/analysis.go chains them
func d2c01Analyse(t *testing.T, files map[string]string) (ident []core_domain.CodeDataStruct, full []core_domain.CodeDataStruct, panicked interface{}) {
	t.Helper()
	dir := d2c01WriteTree(t, files)
	defer func() {
		if r := recover(); r != nil {
			panicked = r
		}
	}()
	identApp := NewJavaIdentifierApp()
	ident = identApp.AnalysisPath(dir)
	fullApp := NewJavaFullApp()
	full = fullApp.AnalysisPath(dir, ident)
	return
}

func d2c01Find(nodes []core_domain.CodeDataStruct, pkg string, name string) []core_domain.CodeDataStruct {
	var found []core_domain.CodeDataStruct
	for _, n := range nodes {
		if n.Package == pkg && n.NodeName == name {
			found = append(found, n)
		}
	}
	return found
}

// the named function entries of a type, "name(type name,type name)->ret", sorted
func d2c01Signatures(node core_domain.CodeDataStruct) []string {
	var out []string
	for _, f := range node.Functions {
		if f.Name == "" {
			continue // the unnamed holder of field-initialiser calls is not a named entry
		}
		var ps []string
		for _, p := range f.Parameters {
			ps = append(ps, p.TypeType+" "+p.TypeValue)
		}
		out = append(out, fmt.Sprintf("%s(%s)->%s", f.Name, strings.Join(ps, ","), f.ReturnType))
	}
	sort.Strings(out)
	return out
}

func d2c01AnnotationNames(node core_domain.CodeDataStruct) []string {
	var out []string
	for _, a := range node.Annotations {
		out = append(out, a.Name)
	}
	return out
}

// defect 1 -------------------------------------------------------------------
// full pass: any `new` expression inside a method of an anonymous class leaves the
// anonymous-class mode early (ExitCreator), so that the end of the anonymous body
// flushes the ENCLOSING class: the methods declared after it are lost.
func TestDefect2_C01_NewInsideAnonymousClass(t *testing.T) {
	_, full, p := d2c01Analyse(t, map[string]string{
		"src/main/java/a/Svc.java": `package a;

import java.util.List;
import java.util.concurrent.Executor;

public class Svc {
    private Executor executor;

    public void start(final int n) {
        executor.execute(new Runnable() {
            public void run() {
                StringBuilder sb = new StringBuilder();
                sb.append(n);
            }
        });
    }

    public List<String> other(String a, int[] b) {
        return null;
    }
}
`,
	})
	if p != nil {
		t.Fatalf("panic: %v", p)
	}
	nodes := d2c01Find(full, "a", "Svc")
	if len(nodes) != 1 {
		t.Fatalf("full pass: want exactly one entry for a.Svc, got %d", len(nodes))
	}
	got := d2c01Signatures(nodes[0])
	want := []string{"other(String a,int[] b)->List<String>", "start(int n)->void"}
	if strings.Join(got, ";") != strings.Join(want, ";") {
		t.Errorf("full pass: named functions of a.Svc\n got  %v\n want %v", got, want)
	}
}

// defect 2 -------------------------------------------------------------------
// full pass: the superclass written with its simple name and living in the SAME
// package is resolved to a class with that simple name in ANOTHER package when
// that one comes earlier in the identifier list.
func TestDefect2_C01_SuperclassOfSamePackageResolvedToOtherPackage(t *testing.T) {
	_, full, p := d2c01Analyse(t, map[string]string{
		"src/main/java/com/shop/admin/BaseController.java": `package com.shop.admin;

import java.util.List;

public class BaseController {
    public void adminOnly() { }
}
`,
		"src/main/java/com/shop/web/BaseController.java": `package com.shop.web;

import java.util.List;

public class BaseController {
    public void render() { }
}
`,
		"src/main/java/com/shop/web/CartController.java": `package com.shop.web;

import java.util.List;

public class CartController extends BaseController {
    public void show() { }
}
`,
	})
	if p != nil {
		t.Fatalf("panic: %v", p)
	}
	nodes := d2c01Find(full, "com.shop.web", "CartController")
	if len(nodes) != 1 {
		t.Fatalf("full pass: want exactly one entry for com.shop.web.CartController, got %d", len(nodes))
	}
	if got, want := nodes[0].Extend, "com.shop.web.BaseController"; got != want {
		t.Errorf("full pass: superclass of com.shop.web.CartController: got %q, want %q", got, want)
	}
}

// defect 3 -------------------------------------------------------------------
// full pass: the array brackets written after the parameter NAME (String args[])
// are dropped: the parameter is modelled with the element type.
func TestDefect2_C01_ArrayBracketsAfterParameterName(t *testing.T) {
	_, full, p := d2c01Analyse(t, map[string]string{
		"src/main/java/a/Main.java": `package a;

import java.util.List;

public class Main {
    public static void main(String args[]) { }

    public int sum(int values[], String[] names, long grid[][]) { return 0; }
}
`,
	})
	if p != nil {
		t.Fatalf("panic: %v", p)
	}
	nodes := d2c01Find(full, "a", "Main")
	if len(nodes) != 1 {
		t.Fatalf("full pass: want exactly one entry for a.Main, got %d", len(nodes))
	}
	got := d2c01Signatures(nodes[0])
	want := []string{"main(String[] args)->void", "sum(int[] values,String[] names,long[][] grid)->int"}
	if strings.Join(got, ";") != strings.Join(want, ";") {
		t.Errorf("full pass: named functions of a.Main\n got  %v\n want %v", got, want)
	}
}

// defect 4 -------------------------------------------------------------------
// full pass: after the body of an anonymous class the "inside the class" flag is
// down, so that the annotations of the members declared later are recorded as
// annotations of the CLASS.
func TestDefect2_C01_MemberAnnotationBecomesClassAnnotation(t *testing.T) {
	_, full, p := d2c01Analyse(t, map[string]string{
		"src/main/java/a/Jobs.java": `package a;

import java.util.List;
import java.util.concurrent.Executor;

@Service
public class Jobs {
    private Executor executor;

    public void start() {
        executor.execute(new Runnable() {
            public void run() {
                System.out.println("x");
            }
        });
    }

    @Deprecated
    @Transactional(readOnly = true)
    public List<String> names() {
        return null;
    }
}
`,
	})
	if p != nil {
		t.Fatalf("panic: %v", p)
	}
	nodes := d2c01Find(full, "a", "Jobs")
	if len(nodes) != 1 {
		t.Fatalf("full pass: want exactly one entry for a.Jobs, got %d", len(nodes))
	}
	got := d2c01AnnotationNames(nodes[0])
	if strings.Join(got, ",") != "Service" {
		t.Errorf("full pass: class annotations of a.Jobs: got %v, want [Service]", got)
	}
}

// defect 5 (extra) -----------------------------------------------------------
// full pass: an anonymous class that initialises a FIELD is not recognised as one
// (EnterCreator gives up when no method is open): its methods become methods of the
// enclosing class, its end flushes the enclosing class, later methods are lost.
func TestDefect2_C01_AnonymousClassInFieldInitialiserFullPass(t *testing.T) {
	_, full, p := d2c01Analyse(t, map[string]string{
		"src/main/java/a/Sorter.java": `package a;

import java.util.List;
import java.util.Comparator;

public class Sorter {
    private final Comparator<String> byLength = new Comparator<String>() {
        public int compare(String x, String y) {
            return x.length() - y.length();
        }
    };

    public void sort(List<String> xs) {
        xs.sort(byLength);
    }
}
`,
	})
	if p != nil {
		t.Fatalf("panic: %v", p)
	}
	nodes := d2c01Find(full, "a", "Sorter")
	if len(nodes) != 1 {
		t.Fatalf("full pass: want exactly one entry for a.Sorter, got %d", len(nodes))
	}
	got := d2c01Signatures(nodes[0])
	want := []string{"sort(List<String> xs)->void"}
	if strings.Join(got, ";") != strings.Join(want, ";") {
		t.Errorf("full pass: named functions of a.Sorter\n got  %v\n want %v", got, want)
	}
}
