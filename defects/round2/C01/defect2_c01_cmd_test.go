package cmd

import (
	"os"
	"path/filepath"
	"testing"

	"github.com/modernizing/coca/pkg/application/analysis/javaapp"
	"github.com/modernizing/coca/pkg/domain/core_domain"
)

// defect: `coca analysis` with its default flags (-i=true: run the identifier pass
// now) hands NO identifiers to the full pass, because AnalysisJava shadows iNodes
// (`iNodes := identifierApp.AnalysisPath(...)` inside the if). The model the command
// writes therefore differs from what the two passes produce when chained properly:
// the superclass of a type that lives in the same package stays unresolved.
func TestDefect2_C01_AnalysisCommandDropsIdentifiers(t *testing.T) {
	dir := t.TempDir()
	files := map[string]string{
		"src/main/java/com/shop/web/BaseController.java": `package com.shop.web;

import java.util.List;

public class BaseController {
    public void render() { }
}
`,
		"src/main/java/com/shop/web/CartController.java": `package com.shop.web;

import java.util.List;

public class CartController extends BaseController {
    public void show() { }
}
`,
	}
	for name, content := range files {
		p := filepath.Join(dir, filepath.FromSlash(name))
		if err := os.MkdirAll(filepath.Dir(p), 0o755); err != nil {
			t.Fatal(err)
		}
		if err := os.WriteFile(p, []byte(content), 0o644); err != nil {
			t.Fatal(err)
		}
	}

	find := func(nodes []core_domain.CodeDataStruct) core_domain.CodeDataStruct {
		var found []core_domain.CodeDataStruct
		for _, n := range nodes {
			if n.Package == "com.shop.web" && n.NodeName == "CartController" {
				found = append(found, n)
			}
		}
		if len(found) != 1 {
			t.Fatalf("want exactly one entry for com.shop.web.CartController, got %d", len(found))
		}
		return found[0]
	}

	// the two passes, chained as the property describes them
	identApp := javaapp.NewJavaIdentifierApp()
	ident := identApp.AnalysisPath(dir)
	fullApp := javaapp.NewJavaFullApp()
	want := find(fullApp.AnalysisPath(dir, ident)).Extend
	if want != "com.shop.web.BaseController" {
		t.Fatalf("precondition: the chained passes resolve the superclass, got %q", want)
	}

	// the command (what `coca analysis -p dir` runs; -i defaults to true)
	saved := analysisCmdConfig
	defer func() { analysisCmdConfig = saved }()
	analysisCmdConfig.Path = dir
	analysisCmdConfig.UpdateIdentify = true

	var nodes []core_domain.CodeDataStruct
	func() {
		defer func() {
			if r := recover(); r != nil {
				t.Fatalf("panic: %v", r)
			}
		}()
		nodes = AnalysisJava()
	}()

	if got := find(nodes).Extend; got != want {
		t.Errorf("coca analysis: superclass of com.shop.web.CartController: got %q, want %q (as the chained passes give)", got, want)
	}
}
