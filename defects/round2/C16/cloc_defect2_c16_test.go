package cmd

import (
	"bytes"
	"encoding/csv"
	"encoding/json"
	"fmt"
	"io/ioutil"
	"os"
	"path/filepath"
	"strconv"
	"strings"
	"testing"

	"github.com/boyter/scc/processor"
	cloc_app "github.com/modernizing/coca/pkg/application/cloc"
)

// c16Write creates root/rel (and its parents) with the given content.
func c16Write(t *testing.T, root, rel, content string) {
	t.Helper()
	p := filepath.Join(root, filepath.FromSlash(rel))
	if err := os.MkdirAll(filepath.Dir(p), 0755); err != nil {
		t.Fatal(err)
	}
	if err := ioutil.WriteFile(p, []byte(content), 0644); err != nil {
		t.Fatal(err)
	}
}

// c16Source builds a source text with exactly `code` code lines, `comment`
// comment lines (line comment marker cm) and `blank` blank lines.
func c16Source(code, comment, blank int, cm string) string {
	var sb strings.Builder
	for i := 0; i < code; i++ {
		sb.WriteString(fmt.Sprintf("x%d = %d;\n", i, i))
	}
	for i := 0; i < comment; i++ {
		sb.WriteString(cm + " a comment\n")
	}
	for i := 0; i < blank; i++ {
		sb.WriteString("\n")
	}
	return sb.String()
}

// TestDefect2_C16_RootIgnoreFile: a tree whose root holds an ignore file
// (.gitignore; scc itself classifies it as a source language "gitignore").
// The whole-tree (base) count honours the root ignore file, the per-directory
// counts start below it and do not, so the two disagree: a row reports more
// Java than the whole tree has, the header lacks a language that the row's own
// count found, and the row's summary is neither "everything in the directory"
// nor "nothing (ignored)".
func TestDefect2_C16_RootIgnoreFile(t *testing.T) {
	root, err := ioutil.TempDir("", "c16ignore")
	if err != nil {
		t.Fatal(err)
	}
	defer os.RemoveAll(root)

	c16Write(t, root, ".gitignore", "gen/\n") // 1 code line of language "gitignore"
	c16Write(t, root, "app/Main.java", c16Source(5, 2, 1, "//"))
	c16Write(t, root, "gen/Gen.java", c16Source(7, 2, 1, "//"))
	c16Write(t, root, "gen/Model.kt", c16Source(3, 2, 1, "//"))

	oldOut, oldFmt, oldFiles := output, processor.Format, processor.Files
	defer func() { output, processor.Format, processor.Files = oldOut, oldFmt, oldFiles }()
	output = new(bytes.Buffer)
	processor.Files = false

	_ = cloc_app.CreateClocDir()
	processByDirectory(root)

	// the whole-tree figures the command itself computed
	var base []processor.LanguageSummary
	content, err := ioutil.ReadFile(filepath.FromSlash("coca_reporter/base_cloc.json"))
	if err != nil {
		t.Fatal(err)
	}
	if err := json.Unmarshal(content, &base); err != nil {
		t.Fatal(err)
	}
	whole := map[string]int{}
	for _, l := range base {
		whole[l.Name] = int(l.Code)
	}

	f, err := os.Open(filepath.FromSlash("coca_reporter/cloc.csv"))
	if err != nil {
		t.Fatal(err)
	}
	defer f.Close()
	recs, err := csv.NewReader(f).ReadAll()
	if err != nil {
		t.Fatal(err)
	}
	header := recs[0]
	t.Logf("report: %v", recs)

	col := map[string]int{}
	for i := 2; i < len(header); i++ {
		col[header[i]] = i
	}
	rows := map[string][]string{}
	for _, rec := range recs[1:] {
		rows[rec[0]] = rec
	}
	if len(rows) != 2 || rows["app"] == nil || rows["gen"] == nil {
		t.Fatalf("want exactly the rows app and gen, got %v", recs[1:])
	}

	// files directly in the root: only .gitignore with one code line
	rootFiles := map[string]int{"gitignore": 1}

	// (1) agreement with the whole-tree count, per header language
	for lang, i := range col {
		sum := rootFiles[lang]
		for _, rec := range rows {
			n, _ := strconv.Atoi(rec[i])
			sum += n
		}
		if sum != whole[lang] {
			t.Errorf("%s: rows + root files give %d code lines, whole-tree count says %d", lang, sum, whole[lang])
		}
	}

	// (2) the gen row must be either complete (Java 7 + Kotlin 3 = 10, Kotlin in
	// the header) or entirely ignored (0); anything else is a partial count
	gen := rows["gen"]
	genSummary, _ := strconv.Atoi(gen[1])
	_, hasKotlin := col["Kotlin"]
	complete := genSummary == 10 && hasKotlin && gen[col["Java"]] == "7" && gen[col["Kotlin"]] == "3"
	ignored := genSummary == 0
	if !complete && !ignored {
		t.Errorf("gen row is a partial count: header %v row %v (directory holds Java 7 + Kotlin 3)", header, gen)
	}
}

// TestDefect2_C16_NegativeTopSize: --top-size is an unvalidated int flag; a
// negative value makes processTopFile slice summary.Files[:negative].
func TestDefect2_C16_NegativeTopSize(t *testing.T) {
	root, err := ioutil.TempDir("", "c16top")
	if err != nil {
		t.Fatal(err)
	}
	defer os.RemoveAll(root)

	c16Write(t, root, "a/A.java", c16Source(5, 2, 1, "//"))
	c16Write(t, root, "a/B.java", c16Source(9, 2, 1, "//"))
	c16Write(t, root, "b/c.go", c16Source(4, 2, 1, "//"))

	oldOut, oldFmt, oldFiles, oldTop := output, processor.Format, processor.Files, clocConfig.TopSizes
	defer func() {
		output, processor.Format, processor.Files, clocConfig.TopSizes = oldOut, oldFmt, oldFiles, oldTop
	}()
	buf := new(bytes.Buffer)
	output = buf
	clocConfig.TopSizes = -1

	_ = cloc_app.CreateClocDir()
	func() {
		defer func() {
			if r := recover(); r != nil {
				t.Errorf("coca cloc --top-file --top-size=-1 panicked: %v", r)
			}
		}()
		processTopFile(root)
	}()

	// whatever a negative size is taken to mean, the report may not list more
	// files than exist
	if n := strings.Count(buf.String(), ".java"); n > 2 {
		t.Errorf("more Java rows than files: %d\n%s", n, buf.String())
	}
}
