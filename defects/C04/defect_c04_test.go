package rcall

import (
	"reflect"
	"strings"
	"testing"

	"github.com/modernizing/coca/pkg/domain/core_domain"
)

// Model as the Java front end produces it for
//
//	package p;
//	public class Foo { public Foo() {}  static Foo make() { return new Foo(); } }
//	public class Bar { void use() { Foo f = new Foo(); } }
//
// The constructor is a declared project method (p.Foo.Foo, IsConstructor), `new Foo()` is a
// CodeCall with Type "CreatorClass", NodeName "Foo" and an empty FunctionName
// (CodeCall.BuildFullMethodName calls that case isConstructor).
func constructorModel() []core_domain.CodeDataStruct {
	newFoo := core_domain.CodeCall{Package: "p", Type: "CreatorClass", NodeName: "Foo", FunctionName: ""}
	return []core_domain.CodeDataStruct{
		{Package: "p", NodeName: "Foo", Type: "Class", Functions: []core_domain.CodeFunction{
			{Name: "Foo", IsConstructor: true},
			{Name: "make", FunctionCalls: []core_domain.CodeCall{newFoo}},
		}},
		{Package: "p", NodeName: "Bar", Type: "Class", Functions: []core_domain.CodeFunction{
			{Name: "use", FunctionCalls: []core_domain.CodeCall{newFoo}},
		}},
	}
}

func TestDefect_C04_ConstructorCallSitesDropped(t *testing.T) {
	var got map[string][]string
	dot := NewRCallGraph().Analysis("p.Foo.Foo", constructorModel(), func(m map[string][]string) { got = m })

	want := map[string][]string{"p.Foo.Foo": {"p.Foo.make", "p.Bar.use"}}
	if !reflect.DeepEqual(got, want) {
		t.Errorf("reverse-call map: want %v, got %v", want, got)
	}
	for _, edge := range []string{
		"\"p.Foo.make\" -> \"p.Foo.Foo\";\n",
		"\"p.Bar.use\" -> \"p.Foo.Foo\";\n",
	} {
		if !strings.Contains(dot, edge) {
			t.Errorf("direct caller edge %q missing from graph:\n%s", edge, dot)
		}
	}
}

// One analyser, two targets, one process. BuildRCallChain is the exported entry point that
// call.Analysis uses directly. The first traversal walks a caller chain of depth 7, the second
// asks for a target in an unrelated part of the model whose only caller is q.V.v.
func TestDefect_C04_BudgetLeaksBetweenTargets(t *testing.T) {
	rcallMap := map[string][]string{
		"p.T.t":  {"p.A1.m"},
		"p.A1.m": {"p.A2.m"},
		"p.A2.m": {"p.A3.m"},
		"p.A3.m": {"p.A4.m"},
		"p.A4.m": {"p.A5.m"},
		"p.A5.m": {"p.A6.m"},
		"p.A6.m": {"p.A7.m"},
		"q.U.u":  {"q.V.v"},
	}
	graph := NewRCallGraph()
	first := graph.BuildRCallChain("p.T.t", rcallMap)
	if !strings.Contains(first, "\"p.A1.m\" -> \"p.T.t\";\n") {
		t.Fatalf("first traversal lost the direct caller: %q", first)
	}
	second := graph.BuildRCallChain("q.U.u", rcallMap)
	if !strings.Contains(second, "\"q.V.v\" -> \"q.U.u\";\n") {
		t.Errorf("second target: direct caller q.V.v missing, chain is %q", second)
	}
}
