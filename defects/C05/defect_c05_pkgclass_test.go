package unused

import (
	"io/ioutil"
	"os"
	"path/filepath"
	"strings"
	"testing"

	"github.com/modernizing/coca/pkg/application/analysis/javaapp"
)

// The class of a rename entry is a (package, class) pair. Comparing the concatenation package+class makes
// package "shop" + class "sService" the same as package "shops" + class "Service".
func TestDefect_C05_PackageAndClassAreComparedSeparately(t *testing.T) {
	dir, err := ioutil.TempDir("", "c05pc")
	if err != nil {
		t.Fatal(err)
	}
	defer os.RemoveAll(dir)
	write := func(rel, text string) string {
		p := filepath.Join(dir, filepath.FromSlash(rel))
		_ = os.MkdirAll(filepath.Dir(p), 0755)
		if err := ioutil.WriteFile(p, []byte(text), 0644); err != nil {
			t.Fatal(err)
		}
		return p
	}
	target := write("shops/Service.java", "package shops;\n\npublic class Service {\n    public void run() {\n    }\n}\n")
	other := write("shop/sService.java", "package shop;\n\npublic class sService {\n    public void run() {\n    }\n}\n")

	identifiers := new(javaapp.JavaIdentifierApp).AnalysisPath(dir)
	callApp := javaapp.NewJavaFullApp()
	nodes := callApp.AnalysisPath(dir, identifiers)
	RenameMethodApp(nodes).Refactoring("shops.Service.run -> shops.Service.start\n")

	got, _ := ioutil.ReadFile(target)
	if !strings.Contains(string(got), "void start()") {
		t.Errorf("shops.Service.run was not renamed:\n%s", got)
	}
	gotOther, _ := ioutil.ReadFile(other)
	if !strings.Contains(string(gotOther), "void run()") {
		t.Errorf("shop.sService.run is another method of another class and must stay:\n%s", gotOther)
	}
}
