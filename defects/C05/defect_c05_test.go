package unused

import (
	"io/ioutil"
	"os"
	"path/filepath"
	"sort"
	"testing"

	"github.com/modernizing/coca/cocatest/testhelper"
)

// runRenameC05 writes the project into a temporary directory, analyses it with the
// real identifier + full listeners, applies the rename request and compares every
// file byte-for-byte with the expected content.
func runRenameC05(t *testing.T, original map[string]string, expected map[string]string, conf string) {
	dir, err := ioutil.TempDir("", "c05defect")
	if err != nil {
		t.Fatal(err)
	}
	defer os.RemoveAll(dir)

	for name, content := range original {
		p := filepath.Join(dir, filepath.FromSlash(name))
		if err := os.MkdirAll(filepath.Dir(p), 0755); err != nil {
			t.Fatal(err)
		}
		if err := ioutil.WriteFile(p, []byte(content), 0644); err != nil {
			t.Fatal(err)
		}
	}

	nodes, _, _ := testhelper.BuildAnalysisDeps(dir)

	var panicked interface{}
	func() {
		defer func() {
			panicked = recover()
		}()
		RenameMethodApp(nodes).Refactoring(conf)
	}()
	if panicked != nil {
		t.Errorf("rename %q panicked: %v", conf, panicked)
	}

	var names []string
	for name := range expected {
		names = append(names, name)
	}
	sort.Strings(names)
	for _, name := range names {
		got, err := ioutil.ReadFile(filepath.Join(dir, filepath.FromSlash(name)))
		if err != nil {
			t.Fatal(err)
		}
		if string(got) != expected[name] {
			t.Errorf("%s after %q:\n--- got ---\n%s\n--- want ---\n%s", name, conf, got, expected[name])
		}
	}
}

// Defect 1: the method is declared in an interface. Its model position is the one of the
// whole interfaceMethodDeclaration (start column of the return type, column of the ';' + len(name)),
// not the one of the identifier, so the splice is out of range (panic) or eats the line.
func TestDefect_C05_InterfaceMethodDeclaration(t *testing.T) {
	service := "package com.x;\n\npublic interface Service {\n    String find(int id);\n}\n"
	user := "package com.x;\n\npublic class User {\n    private Service service;\n\n    public String go() {\n        return service.find(1);\n    }\n}\n"

	wantService := "package com.x;\n\npublic interface Service {\n    String lookup(int id);\n}\n"
	wantUser := "package com.x;\n\npublic class User {\n    private Service service;\n\n    public String go() {\n        return service.lookup(1);\n    }\n}\n"

	runRenameC05(t,
		map[string]string{
			"src/main/java/com/x/Service.java": service,
			"src/main/java/com/x/User.java":    user,
		},
		map[string]string{
			"src/main/java/com/x/Service.java": wantService,
			"src/main/java/com/x/User.java":    wantUser,
		},
		"com.x.Service.find -> com.x.Service.lookup")
}

// Defect 2: a call the model attributes to the method through a method reference (Util::fmt).
// The call position is the one of the whole `Util::fmt` expression with a stop column of
// column(fmt) + len("Util"), so the qualifier, the `::` and following text are overwritten.
func TestDefect_C05_MethodReference(t *testing.T) {
	util := "package com.x;\n\npublic class Util {\n    public static String fmt(Object o) {\n        return \"\" + o;\n    }\n}\n"
	user := "package com.x;\n\nimport java.util.List;\nimport java.util.stream.Collectors;\n\npublic class User {\n    public List<String> go(List<Object> in) {\n        return in.stream().map(Util::fmt).collect(Collectors.toList());\n    }\n}\n"

	wantUtil := "package com.x;\n\npublic class Util {\n    public static String format(Object o) {\n        return \"\" + o;\n    }\n}\n"
	wantUser := "package com.x;\n\nimport java.util.List;\nimport java.util.stream.Collectors;\n\npublic class User {\n    public List<String> go(List<Object> in) {\n        return in.stream().map(Util::format).collect(Collectors.toList());\n    }\n}\n"

	runRenameC05(t,
		map[string]string{
			"src/main/java/com/x/Util.java": util,
			"src/main/java/com/x/User.java": user,
		},
		map[string]string{
			"src/main/java/com/x/Util.java": wantUtil,
			"src/main/java/com/x/User.java": wantUser,
		},
		"com.x.Util.fmt -> com.x.Util.format")
}

// Defect 3: the return type and the method name are on different lines (usual wrapping of a
// long generic return type). StartLine is the line of the return type, StartLinePosition the
// column of the identifier on the NEXT line: the return-type line is damaged, the name stays.
func TestDefect_C05_ReturnTypeOnPreviousLine(t *testing.T) {
	util := "package com.x;\n\nimport java.util.List;\nimport java.util.Map;\n\npublic class Util {\n    public static Map<String, List<Integer>>\n            compute(int seed) {\n        return null;\n    }\n}\n"
	wantUtil := "package com.x;\n\nimport java.util.List;\nimport java.util.Map;\n\npublic class Util {\n    public static Map<String, List<Integer>>\n            calc(int seed) {\n        return null;\n    }\n}\n"

	runRenameC05(t,
		map[string]string{"src/main/java/com/x/Util.java": util},
		map[string]string{"src/main/java/com/x/Util.java": wantUtil},
		"com.x.Util.compute -> com.x.Util.calc")
}

// Defect 4: calls that the model keeps under InnerStructures (methods of a nested class, and
// - because of how the listener files methods once a nested class exists - the methods of the
// enclosing class too) are never visited: the declaration is renamed, the callers are not.
func TestDefect_C05_CallsInNestedClass(t *testing.T) {
	util := "package com.x;\n\npublic class Util {\n    public static int calc(int o) {\n        return o;\n    }\n}\n"
	user := "package com.x;\n\npublic class User {\n    public int go() {\n        return Util.calc(1);\n    }\n\n    static class Inner {\n        int again() {\n            return Util.calc(2);\n        }\n    }\n}\n"

	wantUtil := "package com.x;\n\npublic class Util {\n    public static int compute(int o) {\n        return o;\n    }\n}\n"
	wantUser := "package com.x;\n\npublic class User {\n    public int go() {\n        return Util.compute(1);\n    }\n\n    static class Inner {\n        int again() {\n            return Util.compute(2);\n        }\n    }\n}\n"

	runRenameC05(t,
		map[string]string{
			"src/main/java/com/x/Util.java": util,
			"src/main/java/com/x/User.java": user,
		},
		map[string]string{
			"src/main/java/com/x/Util.java": wantUtil,
			"src/main/java/com/x/User.java": wantUser,
		},
		"com.x.Util.calc -> com.x.Util.compute")
}
