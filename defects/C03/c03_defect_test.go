package call_test

import (
	"fmt"
	"os"
	"path/filepath"
	"sort"
	"strings"
	"testing"

	"github.com/awalterschulze/gographviz"

	"github.com/modernizing/coca/cocatest/testhelper"
	"github.com/modernizing/coca/pkg/application/call"
	api_domain2 "github.com/modernizing/coca/pkg/domain/api_domain"
	"github.com/modernizing/coca/pkg/domain/core_domain"
)

// ---------------------------------------------------------------- helpers

func c03Call(pkg, node, fn string) core_domain.CodeCall {
	return core_domain.CodeCall{Package: pkg, NodeName: node, FunctionName: fn}
}

func c03Func(name string, calls ...core_domain.CodeCall) core_domain.CodeFunction {
	return core_domain.CodeFunction{Name: name, FunctionCalls: calls}
}

func c03Class(pkg, name string, fns ...core_domain.CodeFunction) core_domain.CodeDataStruct {
	return core_domain.CodeDataStruct{Package: pkg, NodeName: name, Functions: fns}
}

// c03Edges parses the DOT text with the DOT parser that the repository itself
// depends on (gographviz, same string-lexing rules as graphviz' scan.l) and
// returns the edges as "src => dst" strings (IDs as written, i.e. quoted).
func c03Edges(dot string) (edges []string, err error) {
	defer func() {
		if r := recover(); r != nil {
			err = fmt.Errorf("panic while parsing DOT: %v", r)
		}
	}()
	ast, err := gographviz.ParseString(dot)
	if err != nil {
		return nil, err
	}
	g := gographviz.NewGraph()
	if err := gographviz.Analyse(ast, g); err != nil {
		return nil, err
	}
	for _, e := range g.Edges.Edges {
		edges = append(edges, e.Src+" => "+e.Dst)
	}
	return edges, nil
}

func c03Set(edges []string) []string {
	seen := map[string]bool{}
	var out []string
	for _, e := range edges {
		if !seen[e] {
			seen[e] = true
			out = append(out, e)
		}
	}
	sort.Strings(out)
	return out
}

func c03Guard(t *testing.T) {
	if r := recover(); r != nil {
		t.Fatalf("panic: %v", r)
	}
}

// ---------------------------------------------------------------- defect 1

// Two methods of one class that share a name (Java overloads; every Java code
// base has them) are the same node "pkg.Class.name" of the call relation.
// BuildMethodMap assigns instead of appending, so only the calls of the LAST
// function with that full name survive: direct callees of the root vanish.
func TestDefect_C03_OverloadLosesCallees(t *testing.T) {
	defer c03Guard(t)

	build := func(firstHasCalls bool) []core_domain.CodeDataStruct {
		withCalls := c03Func("get", c03Call("p", "S", "run"))
		other := c03Func("get", c03Call("p", "S", "other"))
		noCalls := c03Func("get")
		c := c03Class("p", "C", withCalls, other)
		if !firstHasCalls {
			c = c03Class("p", "C", withCalls, noCalls)
		}
		return []core_domain.CodeDataStruct{
			c,
			c03Class("p", "S", c03Func("run", c03Call("p", "T", "deep")), c03Func("other")),
		}
	}

	t.Run("call/two overloads with different callees", func(t *testing.T) {
		defer c03Guard(t)
		dot := call.NewCallGraph().Analysis("p.C.get", build(true), false)
		edges, err := c03Edges(dot)
		if err != nil {
			t.Fatalf("DOT does not parse: %v\n%s", err, dot)
		}
		want := []string{
			`"p.C.get" => "p.S.other"`,
			`"p.C.get" => "p.S.run"`,
			`"p.S.run" => "p.T.deep"`,
		}
		got := c03Set(edges)
		if strings.Join(got, "\n") != strings.Join(want, "\n") {
			t.Errorf("root p.C.get calls p.S.run (overload 1) and p.S.other (overload 2); 3 expansions fit the budget.\nwant edge set:\n  %s\ngot edge set:\n  %s\nDOT:\n%s",
				strings.Join(want, "\n  "), strings.Join(got, "\n  "), dot)
		}
	})

	t.Run("call/second overload without calls erases the first", func(t *testing.T) {
		defer c03Guard(t)
		dot := call.NewCallGraph().Analysis("p.C.get", build(false), false)
		edges, err := c03Edges(dot)
		if err != nil {
			t.Fatalf("DOT does not parse: %v\n%s", err, dot)
		}
		want := []string{
			`"p.C.get" => "p.S.run"`,
			`"p.S.run" => "p.T.deep"`,
		}
		got := c03Set(edges)
		if strings.Join(got, "\n") != strings.Join(want, "\n") {
			t.Errorf("want edge set:\n  %s\ngot edge set:\n  %s\nDOT:\n%s",
				strings.Join(want, "\n  "), strings.Join(got, "\n  "), dot)
		}
	})

	t.Run("api/chain and size", func(t *testing.T) {
		defer c03Guard(t)
		apis := []api_domain2.RestAPI{{HttpMethod: "GET", Uri: "/a", PackageName: "p", ClassName: "C", MethodName: "get"}}
		dot, counts := call.NewCallGraph().AnalysisByFiles(apis, build(true), nil)
		edges, err := c03Edges(dot)
		if err != nil {
			t.Fatalf("DOT does not parse: %v\n%s", err, dot)
		}
		want := []string{
			`"GET /a" => "p.C.get"`,
			`"p.C.get" => "p.S.other"`,
			`"p.C.get" => "p.S.run"`,
			`"p.S.run" => "p.T.deep"`,
		}
		got := c03Set(edges)
		if strings.Join(got, "\n") != strings.Join(want, "\n") {
			t.Errorf("want edge set:\n  %s\ngot edge set:\n  %s", strings.Join(want, "\n  "), strings.Join(got, "\n  "))
		}
		if len(counts) != 1 || counts[0].Size != 4 {
			t.Errorf("want Size 4 (3 chain edges + 1), got %+v", counts)
		}
	})
}

// ---------------------------------------------------------------- defect 2

// escapeStr escapes '"' but not '\'. A name that contains a backslash directly
// in front of a quote, or that ends in a backslash, therefore produces a DOT
// string literal that ends too early / never ends. Such names are produced by
// coca's own Java front end: `"\"".equals(x)` is recorded as a call whose
// NodeName is the literal text "\"" (4 characters: " \ " "), and
// @GetMapping("/a\"") is recorded as the URI /a\ .
func TestDefect_C03_BackslashBreaksDot(t *testing.T) {
	defer c03Guard(t)

	t.Run("call/receiver is the string literal \"\\\"\"", func(t *testing.T) {
		defer c03Guard(t)
		model := []core_domain.CodeDataStruct{
			c03Class("p", "C", c03Func("get", c03Call("p", `"\""`, "equals"))),
		}
		dot := call.NewCallGraph().Analysis("p.C.get", model, false)
		edges, err := c03Edges(dot)
		if err != nil {
			t.Fatalf("generated DOT is not well-formed: %v\n%s", err, dot)
		}
		if len(edges) != 1 || !strings.HasPrefix(edges[0], `"p.C.get" => `) {
			t.Errorf("want exactly one edge leaving \"p.C.get\", got %q\n%s", edges, dot)
		}
	})

	t.Run("api/URI ending in a backslash", func(t *testing.T) {
		defer c03Guard(t)
		model := []core_domain.CodeDataStruct{
			c03Class("p", "C", c03Func("get", c03Call("p", "S", "run"))),
		}
		apis := []api_domain2.RestAPI{{HttpMethod: "GET", Uri: `/a\`, PackageName: "p", ClassName: "C", MethodName: "get"}}
		dot, _ := call.NewCallGraph().AnalysisByFiles(apis, model, nil)
		edges, err := c03Edges(dot)
		if err != nil {
			t.Fatalf("generated DOT is not well-formed: %v\n%s", err, dot)
		}
		if len(edges) != 2 {
			t.Errorf("want 2 edges (API -> p.C.get, p.C.get -> p.S.run), got %q\n%s", edges, dot)
		}
	})
}

// ---------------------------------------------------------------- defect 3

// Size is computed by splitting the chain TEXT on " -> ", so every occurrence
// of " -> " inside a name counts as an extra edge. coca's Java front end
// records `" -> ".concat(x)` as a call whose NodeName is the literal text
// " -> " (with its quotes), so such names come out of real source code.
func TestDefect_C03_SizeCountsArrowInsideName(t *testing.T) {
	defer c03Guard(t)

	model := []core_domain.CodeDataStruct{
		c03Class("p", "C", c03Func("get",
			c03Call("p", `" -> "`, "concat"),
			c03Call("p", "S", "run"))),
	}
	apis := []api_domain2.RestAPI{{HttpMethod: "GET", Uri: "/a", PackageName: "p", ClassName: "C", MethodName: "get"}}
	dot, counts := call.NewCallGraph().AnalysisByFiles(apis, model, nil)
	edges, err := c03Edges(dot)
	if err != nil {
		t.Fatalf("DOT does not parse: %v\n%s", err, dot)
	}
	chainEdges := 0
	for _, e := range edges {
		if !strings.HasPrefix(e, `"GET /a" => `) {
			chainEdges++
		}
	}
	if chainEdges != 2 {
		t.Fatalf("test premise: expected 2 chain edges in the DOT, got %d\n%s", chainEdges, dot)
	}
	if len(counts) != 1 {
		t.Fatalf("want one CallAPI, got %+v", counts)
	}
	if counts[0].Size != chainEdges+1 {
		t.Errorf("Size must be number of chain edges + 1 = %d, got %d\n%s", chainEdges+1, counts[0].Size, dot)
	}
}

// ---------------------------------------------------------------- defect 4

// A constructor call `new S()` is recorded by the front end as a call with an
// empty FunctionName; CodeCall.BuildFullMethodName names it "p.S". The
// constructor itself is recorded as method "S" of class p.S (IsConstructor),
// i.e. BuildMethodMap files its calls under "p.S.S". The two names never meet,
// so nothing a constructor calls is ever part of the graph although the model
// records both the call to the constructor and the constructor's own calls.
func TestDefect_C03_ConstructorBodyNotExpanded(t *testing.T) {
	defer c03Guard(t)

	dir := t.TempDir()
	files := map[string]string{
		"C.java": "package p;\npublic class C {\n  public void get() {\n    new S();\n  }\n}\n",
		"S.java": "package p;\npublic class S {\n  public S() {\n    T.init();\n  }\n}\n",
		"T.java": "package p;\npublic class T {\n  public static void init() {\n  }\n}\n",
	}
	for name, src := range files {
		if err := os.WriteFile(filepath.Join(dir, name), []byte(src), 0644); err != nil {
			t.Fatal(err)
		}
	}
	callNodes, _, _ := testhelper.BuildAnalysisDeps(dir)

	// premise: the model records both the constructor call and the constructor's call
	var sawCtorCall, sawCtorBody bool
	for _, n := range callNodes {
		for _, f := range n.Functions {
			for _, c := range f.FunctionCalls {
				if n.NodeName == "C" && f.Name == "get" && c.Package == "p" && c.NodeName == "S" && c.FunctionName == "" {
					sawCtorCall = true
				}
				if n.NodeName == "S" && f.IsConstructor && c.NodeName == "T" && c.FunctionName == "init" {
					sawCtorBody = true
				}
			}
		}
	}
	if !sawCtorCall || !sawCtorBody {
		t.Fatalf("test premise broken: ctorCall=%v ctorBody=%v", sawCtorCall, sawCtorBody)
	}

	dot := call.NewCallGraph().Analysis("p.C.get", callNodes, false)
	edges, err := c03Edges(dot)
	if err != nil {
		t.Fatalf("DOT does not parse: %v\n%s", err, dot)
	}
	found := false
	for _, e := range edges {
		if strings.HasSuffix(e, ` => "p.T.init"`) {
			found = true
		}
	}
	if !found {
		t.Errorf("C.get() calls new S(), S() calls T.init(): 2 expansions, well inside the budget, yet no edge into \"p.T.init\".\nedges: %q\nDOT:\n%s", edges, dot)
	}
}
