package git

import (
	"fmt"
	"sort"
	"testing"
)

func c15TeamAsMap(t *testing.T, messages []CommitMessage) (m map[string]TeamSummary, panicked interface{}) {
	t.Helper()
	defer func() {
		if r := recover(); r != nil {
			panicked = r
		}
	}()
	m = make(map[string]TeamSummary)
	for _, s := range GetTeamSummary(messages) {
		if _, dup := m[s.EntityName]; dup {
			t.Errorf("duplicated entity in team summary: %q", s.EntityName)
		}
		m[s.EntityName] = s
	}
	return m, nil
}

func c15Dump(m map[string]TeamSummary) string {
	var keys []string
	for k := range m {
		keys = append(keys, k)
	}
	sort.Strings(keys)
	out := ""
	for _, k := range keys {
		out += fmt.Sprintf("\n    %q revs=%d authors=%d", k, m[k].RevsCount, m[k].AuthorCount)
	}
	return out
}

// Defect 1: a file moved OUT of a sub directory is printed by git as
// `dir/{sub => }/file`. The decoded new name keeps both slashes
// (`dir//file`), so the history is attached to a path that does not exist
// and every later commit on the real path `dir/file` starts a second entry.
func TestDefect_C15_MoveOutOfDirectory(t *testing.T) {
	messages := BuildMessageByInput(`
[aaaaaa1] Alice 2019-12-01 feat: add listener
3       0       adapter/call/JavaCallListener.go

[aaaaaa2] Bob 2019-12-02 refactor: flatten package
1       1       adapter/{call => }/JavaCallListener.go

[aaaaaa3] Carol 2019-12-03 fix: listener
2       1       adapter/JavaCallListener.go

`)
	if len(messages) != 3 {
		t.Fatalf("precondition: expected 3 parsed commits, got %d", len(messages))
	}

	summary, p := c15TeamAsMap(t, messages)
	if p != nil {
		t.Fatalf("GetTeamSummary panicked: %v", p)
	}

	want := "adapter/JavaCallListener.go"
	if len(summary) != 1 {
		t.Errorf("exactly one file exists (%q), team summary has %d entries:%s", want, len(summary), c15Dump(summary))
	}
	got, ok := summary[want]
	if !ok {
		t.Fatalf("existing file %q is missing from the team summary:%s", want, c15Dump(summary))
	}
	if got.RevsCount != 3 || got.AuthorCount != 3 {
		t.Errorf("%q: want 3 revs / 3 authors (history carried over the rename), got %d / %d", want, got.RevsCount, got.AuthorCount)
	}

	ages := CalculateCodeAge(messages)
	if len(ages) != 1 || ages[0].EntityName != want || ages[0].Age.Format("2006-01-02") != "2019-12-01" {
		t.Errorf("code age: want one entry %q first committed 2019-12-01, got %d entries: %+v", want, len(ages), ages)
	}
}

// Defect 2: several renames in ONE commit (a rotation: b becomes c, a becomes b).
// switchMapFile overwrites the entry of the target name while that entry is
// still waiting to be moved itself, so the outcome depends on the order of the
// changes inside the commit (which, coming from the parser, is a random map order).
func TestDefect_C15_RenameChainInOneCommit(t *testing.T) {
	build := func(renames []FileChange) []CommitMessage {
		return []CommitMessage{
			{Rev: "1111111", Author: "Alice", Date: "2019-01-01", Message: "add a", Changes: []FileChange{{Added: 1, File: "src/a.go"}}},
			{Rev: "2222222", Author: "Bob", Date: "2019-02-01", Message: "add b", Changes: []FileChange{{Added: 1, File: "src/b.go"}}},
			{Rev: "3333333", Author: "Bob", Date: "2019-02-02", Message: "touch b", Changes: []FileChange{{Added: 1, File: "src/b.go"}}},
			{Rev: "4444444", Author: "Carol", Date: "2019-03-01", Message: "rotate", Changes: renames},
		}
	}
	orders := map[string][]FileChange{
		"b=>c first": {{File: "src/{b.go => c.go}"}, {File: "src/{a.go => b.go}"}},
		"a=>b first": {{File: "src/{a.go => b.go}"}, {File: "src/{b.go => c.go}"}},
	}

	for _, name := range []string{"b=>c first", "a=>b first"} {
		summary, p := c15TeamAsMap(t, build(orders[name]))
		if p != nil {
			t.Errorf("[%s] GetTeamSummary panicked: %v", name, p)
			continue
		}
		// after the rotation: src/b.go holds the history of a (1111111) + 4444444,
		//                     src/c.go holds the history of b (2222222, 3333333) + 4444444
		if len(summary) != 2 {
			t.Errorf("[%s] two files exist (src/b.go, src/c.go), summary has %d entries:%s", name, len(summary), c15Dump(summary))
		}
		if got, ok := summary["src/b.go"]; !ok {
			t.Errorf("[%s] existing file src/b.go missing from the summary:%s", name, c15Dump(summary))
		} else if got.RevsCount != 2 || got.AuthorCount != 2 {
			t.Errorf("[%s] src/b.go: want 2 revs / 2 authors, got %d / %d", name, got.RevsCount, got.AuthorCount)
		}
		if got, ok := summary["src/c.go"]; !ok {
			t.Errorf("[%s] existing file src/c.go missing from the summary:%s", name, c15Dump(summary))
		} else if got.RevsCount != 3 || got.AuthorCount != 2 {
			t.Errorf("[%s] src/c.go: want 3 revs / 2 authors, got %d / %d:%s", name, got.RevsCount, got.AuthorCount, c15Dump(summary))
		}
	}
}

// Defect 3: the changelog summary only decodes the `{a => b}` notation. A
// full-path rename `a => b` is booked under the literal string "a => b",
// a file that never existed, and the real new file gets no count.
func TestDefect_C15_ChangelogFullPathRename(t *testing.T) {
	messages := BuildMessageByInput(`
[bbbbbb1] Alice 2019-12-01 fix: first
1       0       imp/imp_test.go

[bbbbbb2] Alice 2019-12-02 fix: move test
3       3       imp/imp_test.go => learn_go_test.go

[bbbbbb3] Alice 2019-12-03 fix: again
1       0       learn_go_test.go

[bbbbbb4] Alice 2019-12-04 fix: in-directory control
1       1       cmd/{call_graph.go => call.go}

`)
	if len(messages) != 4 {
		t.Fatalf("precondition: expected 4 parsed commits, got %d", len(messages))
	}
	var changeMap map[string]map[string]int
	func() {
		defer func() {
			if r := recover(); r != nil {
				t.Fatalf("BuildChangeMap panicked: %v", r)
			}
		}()
		changeMap = BuildChangeMap(messages)
	}()

	fix := changeMap["fix"]
	// control: in-directory form is decoded to the new name
	if fix["cmd/call.go"] != 1 {
		t.Errorf("control: cmd/call.go want 1, got %d (%v)", fix["cmd/call.go"], fix)
	}
	for file := range fix {
		if basicMvReg.MatchString(file) {
			t.Errorf("changelog summary has an entry for the rename notation %q (count %d), which is not a file", file, fix[file])
		}
	}
	// commits bbbbbb2 and bbbbbb3 are `fix` commits that touched learn_go_test.go
	if fix["learn_go_test.go"] != 2 {
		t.Errorf("learn_go_test.go was touched by 2 fix commits (the rename and the later edit), got %d; map: %v", fix["learn_go_test.go"], fix)
	}
}

// Defect 4: BasicSummary counts the raw rename notation as a path of its own,
// so a history over two path names (one file, renamed once) reports 3 (or 4) entities.
func TestDefect_C15_BasicSummaryCountsRenameNotation(t *testing.T) {
	messages := BuildMessageByInput(`
[cccccc1] Alice 2019-12-01 add
1       0       language/java/JavaParser.tokens

[cccccc2] Alice 2019-12-02 move
0       0       language/java/JavaParser.tokens => src/language/java/JavaParser.tokens

[cccccc3] Alice 2019-12-03 edit
1       0       src/language/java/JavaParser.tokens

[cccccc4] Bob 2019-12-04 move again
0       0       src/language/java/{JavaParser.tokens => JavaLexer.tokens}

[cccccc5] Bob 2019-12-05 edit
1       0       src/language/java/JavaLexer.tokens

`)
	if len(messages) != 5 {
		t.Fatalf("precondition: expected 5 parsed commits, got %d", len(messages))
	}
	summary := BasicSummary(messages)
	if summary.Commits != 5 || summary.Authors != 2 {
		t.Errorf("commits/authors: want 5/2, got %d/%d", summary.Commits, summary.Authors)
	}
	// distinct paths that ever appear in this history:
	//   language/java/JavaParser.tokens, src/language/java/JavaParser.tokens, src/language/java/JavaLexer.tokens
	if summary.Entities != 3 {
		t.Errorf("history names 3 distinct paths (1 surviving file); BasicSummary.Entities = %d", summary.Entities)
	}
}
