package c09probe

import (
	"encoding/json"
	"fmt"
	"os"
	"path/filepath"
	"runtime/debug"
	"strings"
	"testing"

	"github.com/antlr/antlr4/runtime/Go/antlr/v4"
	comment "github.com/modernizing/coca/languages/comment"
	parser "github.com/modernizing/coca/languages/java"
	base2 "github.com/modernizing/coca/pkg/application/refactor/base"
	models2 "github.com/modernizing/coca/pkg/application/refactor/base/models"
	"github.com/modernizing/coca/pkg/application/todo/astitodo"
	"github.com/modernizing/coca/pkg/domain/core_domain"
	"github.com/modernizing/coca/pkg/infrastructure/ast/ast_java"
	"github.com/modernizing/coca/pkg/infrastructure/ast/ast_java/ast_api_java"
	"github.com/modernizing/coca/pkg/infrastructure/ast/ast_java/java_identify"
	"github.com/modernizing/coca/pkg/infrastructure/ast/bs_java"
)

type errCounter struct {
	*antlr.DefaultErrorListener
	n    int
	msgs []string
}

func (e *errCounter) SyntaxError(recognizer antlr.Recognizer, offendingSymbol interface{}, line, column int, msg string, ex antlr.RecognitionException) {
	e.n++
	e.msgs = append(e.msgs, fmt.Sprintf("%d:%d %s", line, column, msg))
}

func parseStrict(code string) (parser.ICompilationUnitContext, *errCounter, bool) {
	ec := &errCounter{DefaultErrorListener: antlr.NewDefaultErrorListener()}
	is := antlr.NewInputStream(code)
	lexer := parser.NewJavaLexer(is)
	lexer.RemoveErrorListeners()
	lexer.AddErrorListener(ec)
	stream := antlr.NewCommonTokenStream(lexer, 0)
	p := parser.NewJavaParser(stream)
	p.RemoveErrorListeners()
	p.AddErrorListener(ec)
	cu := p.CompilationUnit()
	// whole input consumed?
	consumed := stream.LA(1) == antlr.TokenEOF
	return cu, ec, consumed
}

func valid(code string) (bool, string) {
	_, ec, consumed := parseStrict(code)
	if ec.n > 0 {
		return false, strings.Join(ec.msgs, "; ")
	}
	if !consumed {
		return false, "not fully consumed"
	}
	return true, ""
}

type result struct {
	pass  string
	panic string
}

func guard(name string, out *[]result, f func()) {
	defer func() {
		if r := recover(); r != nil {
			st := string(debug.Stack())
			// find first coca frame
			lines := strings.Split(st, "\n")
			site := ""
			for i, l := range lines {
				if strings.Contains(l, "modernizing/coca/pkg") && !strings.Contains(l, "c09probe") && i+1 < len(lines) {
					site = strings.TrimSpace(l) + " @ " + strings.TrimSpace(lines[i+1])
					break
				}
			}
			*out = append(*out, result{name, fmt.Sprintf("%v :: %s", r, site)})
		}
	}()
	f()
}

func runAll(code string) []result {
	var out []result
	var idents []core_domain.CodeDataStruct
	guard("identifier", &out, func() {
		p := ast_java.ProcessJavaString(code)
		p.RemoveErrorListeners()
		ctx := p.CompilationUnit()
		l := java_identify.NewJavaIdentifierListener()
		antlr.NewParseTreeWalker().Walk(l, ctx)
		idents = l.GetNodes()
		if _, err := json.Marshal(idents); err != nil {
			panic(err)
		}
	})
	identMap := core_domain.BuildIdentifierMap(idents)
	var classes []string
	for _, n := range idents {
		classes = append(classes, n.GetClassFullName())
	}
	var full []core_domain.CodeDataStruct
	guard("full", &out, func() {
		p := ast_java.ProcessJavaString(code)
		p.RemoveErrorListeners()
		ctx := p.CompilationUnit()
		l := ast_java.NewJavaFullListener(identMap, "x.java")
		l.AppendClasses(classes)
		antlr.NewParseTreeWalker().Walk(l, ctx)
		full = l.GetNodeInfo()
		if _, err := json.Marshal(full); err != nil {
			panic(err)
		}
	})
	guard("bs", &out, func() {
		p := ast_java.ProcessJavaString(code)
		p.RemoveErrorListeners()
		ctx := p.CompilationUnit()
		l := bs_java.NewBadSmellListener()
		antlr.NewParseTreeWalker().Walk(l, ctx)
		if _, err := json.Marshal(l.GetNodeInfo()); err != nil {
			panic(err)
		}
	})
	guard("api", &out, func() {
		p := ast_java.ProcessJavaString(code)
		p.RemoveErrorListeners()
		ctx := p.CompilationUnit()
		l := ast_api_java.NewJavaAPIListener(identMap, core_domain.BuildDIMap(idents, identMap))
		l.AppendClasses(full)
		antlr.NewParseTreeWalker().Walk(l, ctx)
		if _, err := json.Marshal(l.GetClassApis()); err != nil {
			panic(err)
		}
	})
	guard("refactor", &out, func() {
		p := ast_java.ProcessJavaString(code)
		p.RemoveErrorListeners()
		ctx := p.CompilationUnit()
		node := models2.NewJFullIdentifier()
		l := new(base2.JavaRefactorListener)
		l.InitNode(node)
		antlr.NewParseTreeWalker().Walk(l, ctx)
		if _, err := json.Marshal(l.GetNodeInfo()); err != nil {
			panic(err)
		}
	})
	guard("todo", &out, func() {
		lexer := comment.NewCommentLexer(antlr.NewInputStream(code))
		lexer.RemoveErrorListeners()
		for _, token := range lexer.GetAllTokens() {
			if token.GetTokenType() >= 1 && token.GetTokenType() <= 3 {
				astitodo.ParseComment(token, "x.java")
			}
		}
	})
	return out
}

func fixtureFiles(t *testing.T) []string {
	var files []string
	filepath.Walk("../../_fixtures", func(path string, info os.FileInfo, err error) error {
		if err == nil && !info.IsDir() && strings.HasSuffix(path, ".java") {
			files = append(files, path)
		}
		return nil
	})
	return files
}

func TestProbeFixtures(t *testing.T) {
	for _, f := range fixtureFiles(t) {
		b, _ := os.ReadFile(f)
		code := string(b)
		ok, why := valid(code)
		res := runAll(code)
		for _, r := range res {
			t.Errorf("%s valid=%v(%s) pass=%s panic=%s", f, ok, why, r.pass, r.panic)
		}
	}
}

func TestProbeSnippets(t *testing.T) {
	for i, code := range snippets {
		ok, why := valid(code)
		if !ok {
			t.Logf("snippet %d INVALID: %s\n%s", i, why, code)
			continue
		}
		for _, r := range runAll(code) {
			t.Errorf("snippet %d pass=%s panic=%s\n%s", i, r.pass, r.panic, code)
		}
	}
}
