package bs

import (
	"fmt"
	"io/ioutil"
	"os"
	"path/filepath"
	"strings"
	"testing"
	"time"
)

// C09: the bad-smell pass does not complete on a small, perfectly valid project in which a
// dozen classes of one package call each other. checkConnectedGraphCall enumerates every
// simple path of the class call graph (factorial growth) and keeps every path as a string:
// 10 classes take ~17 s and 11 million entries, 11 classes ~7 min and 119 million entries,
// 12 classes exhaust time and memory (the process dies with "out of memory", which cannot
// be recovered, so the whole analysis is lost).
func TestDefect_C09_BadSmellDenseCallGraph(t *testing.T) {
	const classes = 12
	const deadline = 5 * time.Second

	dir, err := ioutil.TempDir("", "c09-dense")
	if err != nil {
		t.Fatal(err)
	}
	defer os.RemoveAll(dir)

	for i := 0; i < classes; i++ {
		var sb strings.Builder
		sb.WriteString("package shop;\n\n")
		sb.WriteString(fmt.Sprintf("public class Service%d {\n", i))
		sb.WriteString("    public static void run() {\n")
		for j := 0; j < classes; j++ {
			if j != i {
				sb.WriteString(fmt.Sprintf("        Service%d.run();\n", j))
			}
		}
		sb.WriteString("    }\n}\n")
		name := filepath.Join(dir, fmt.Sprintf("Service%d.java", i))
		if err := ioutil.WriteFile(name, []byte(sb.String()), 0644); err != nil {
			t.Fatal(err)
		}
	}

	app := NewBadSmellApp()
	nodes := app.AnalysisPath(dir)
	if len(*nodes) != classes {
		t.Fatalf("expected %d nodes, got %d", classes, len(*nodes))
	}

	done := make(chan interface{}, 1)
	go func() {
		defer func() {
			if r := recover(); r != nil {
				done <- r
			}
		}()
		smells := app.IdentifyBadSmell(nodes, nil)
		done <- len(smells)
	}()

	select {
	case r := <-done:
		if _, ok := r.(int); !ok {
			t.Fatalf("bad-smell pass panicked: %v", r)
		}
	case <-time.After(deadline):
		t.Fatalf("bad-smell pass did not complete within %v on %d small valid classes (factorial path enumeration in checkConnectedGraphCall)", deadline, classes)
	}
}
