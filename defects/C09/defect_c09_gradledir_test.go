package todo

import (
	"io/ioutil"
	"os"
	"path/filepath"
	"testing"
)

// C09 (borderline: the trigger is a directory, not a Java sentence): the todo scan, run with the
// CLI's default extension list (".java,...,.gradle"), treats the ubiquitous ".gradle" cache
// directory of a Gradle project as a source file, antlr.NewFileStream fails on it, the error is
// dropped and the nil stream is lexed -> nil pointer panic; no file of the project is reported.
func TestDefect_C09_TodoScanGradleDirectory(t *testing.T) {
	dir, err := ioutil.TempDir("", "c09-gradle")
	if err != nil {
		t.Fatal(err)
	}
	defer os.RemoveAll(dir)

	if err := os.MkdirAll(filepath.Join(dir, ".gradle", "7.4"), 0755); err != nil {
		t.Fatal(err)
	}
	src := filepath.Join(dir, "src", "main", "java", "demo")
	if err := os.MkdirAll(src, 0755); err != nil {
		t.Fatal(err)
	}
	java := "package demo;\n\npublic class Demo {\n    // TODO: implement\n    void run() { }\n}\n"
	if err := ioutil.WriteFile(filepath.Join(src, "Demo.java"), []byte(java), 0644); err != nil {
		t.Fatal(err)
	}

	var panicked interface{}
	var count int
	func() {
		defer func() { panicked = recover() }()
		app := NewTodoApp()
		// the default of `coca todo --ext`
		todos := app.AnalysisPath(dir, []string{".java", ".py", ".go", ".ts", ".js", ".kt", ".groovy", ".gradle"})
		count = len(todos)
	}()

	if panicked != nil {
		t.Fatalf("todo scan panicked: %v", panicked)
	}
	if count != 1 {
		t.Fatalf("expected the one TODO of Demo.java, got %d", count)
	}
}
