package c09probe

import (
	"os"
	"path/filepath"
	"strings"
	"testing"

	"github.com/antlr/antlr4/runtime/Go/antlr/v4"
	parser "github.com/modernizing/coca/languages/java"
	"github.com/modernizing/coca/pkg/application/analysis/javaapp"
	"github.com/modernizing/coca/pkg/application/api"
	"github.com/modernizing/coca/pkg/application/bs"
	"github.com/modernizing/coca/pkg/application/refactor/moveclass"
	"github.com/modernizing/coca/pkg/application/refactor/unused"
	"github.com/modernizing/coca/pkg/application/todo"
	"github.com/modernizing/coca/pkg/domain/core_domain"
)

func relayout(code string, mode int) string {
	lexer := parser.NewJavaLexer(antlr.NewInputStream(code))
	lexer.RemoveErrorListeners()
	var sb strings.Builder
	for _, tk := range lexer.GetAllTokens() {
		if tk.GetChannel() != 0 {
			txt := tk.GetText()
			if strings.HasPrefix(txt, "//") && mode == 0 {
				sb.WriteString("/*" + strings.ReplaceAll(txt[2:], "*/", "") + "*/ ")
			} else if strings.HasPrefix(txt, "/") {
				sb.WriteString(txt)
				if mode == 1 {
					sb.WriteString("\n")
				}
				if mode == 2 {
					sb.WriteString("\r\n")
				}
			}
			continue
		}
		sb.WriteString(tk.GetText())
		switch mode {
		case 0:
			sb.WriteString(" ")
		case 1:
			sb.WriteString("\n")
		case 2:
			sb.WriteString("\r\n\r\n")
		}
	}
	return sb.String()
}

func appsOn(dir string) []result {
	var out []result
	var idents, full []core_domain.CodeDataStruct
	guard("identifier", &out, func() { a := javaapp.NewJavaIdentifierApp(); idents = a.AnalysisPath(dir) })
	guard("full", &out, func() { a := javaapp.NewJavaFullApp(); full = a.AnalysisPath(dir, idents) })
	guard("bs", &out, func() { a := bs.NewBadSmellApp(); n := a.AnalysisPath(dir); a.IdentifyBadSmell(n, nil) })
	guard("api", &out, func() {
		a := new(api.JavaApiApp)
		im := core_domain.BuildIdentifierMap(idents)
		a.AnalysisPath(dir, full, im, core_domain.BuildDIMap(idents, im))
	})
	guard("todo", &out, func() { a := todo.NewTodoApp(); a.AnalysisPath(dir, []string{".java"}) })
	guard("move", &out, func() { a := moveclass.NewMoveClassApp("", dir); a.Analysis() })
	guard("unused", &out, func() { a := unused.NewRemoveUnusedImportApp(dir); r := a.Analysis(); a.Refactoring(r) })
	return out
}

func TestLayout(t *testing.T) {
	old := os.Stdout
	devnull, _ := os.Open(os.DevNull)
	_ = devnull
	for _, f := range fixtureFiles(t) {
		b, _ := os.ReadFile(f)
		code := string(b)
		if ok, _ := valid(code); !ok {
			continue
		}
		for mode := 0; mode < 3; mode++ {
			nc := relayout(code, mode)
			if ok, why := valid(nc); !ok {
				t.Logf("relayout broke %s mode %d: %.100s", f, mode, why)
				continue
			}
			dir := t.TempDir()
			os.WriteFile(filepath.Join(dir, filepath.Base(f)), []byte(nc), 0644)
			w, _ := os.OpenFile(os.DevNull, os.O_WRONLY, 0)
			os.Stdout = w
			res := appsOn(dir)
			os.Stdout = old
			w.Close()
			for _, r := range res {
				t.Errorf("%s mode=%d pass=%s panic=%s", f, mode, r.pass, r.panic)
			}
		}
	}
}
