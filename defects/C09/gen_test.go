package c09probe

import (
	"fmt"
	"math/rand"
	"os"
	"regexp"
	"strings"
	"testing"
)

type elem struct {
	kind   int // 0 literal,1 token,2 rule,3 group
	text   string
	alts   [][]elem
	suffix byte // 0, ?, *, +
}

type grammar struct {
	rules  map[string][][]elem
	tokens map[string]string
	minD   map[string]int
}

func tokenizeG4(src string) []string {
	// strip comments
	src = regexp.MustCompile(`(?s)/\*.*?\*/`).ReplaceAllString(src, " ")
	var out []string
	i := 0
	for i < len(src) {
		c := src[i]
		switch {
		case c == '/' && i+1 < len(src) && src[i+1] == '/':
			for i < len(src) && src[i] != '\n' {
				i++
			}
		case c == ' ' || c == '\t' || c == '\n' || c == '\r':
			i++
		case c == '\'':
			j := i + 1
			for src[j] != '\'' {
				if src[j] == '\\' {
					j++
				}
				j++
			}
			out = append(out, src[i:j+1])
			i = j + 1
		case c == '<':
			// <assoc=right>
			j := strings.IndexByte(src[i:], '>')
			i += j + 1
		case strings.ContainsRune("|()?*+:;=", rune(c)):
			out = append(out, string(c))
			i++
		default:
			j := i
			for j < len(src) && (src[j] == '_' || src[j] >= '0' && src[j] <= '9' || src[j] >= 'a' && src[j] <= 'z' || src[j] >= 'A' && src[j] <= 'Z') {
				j++
			}
			if j == i {
				j = i + 1
			}
			out = append(out, src[i:j])
			i = j
		}
	}
	return out
}

type g4p struct {
	toks []string
	pos  int
}

func (p *g4p) peek() string {
	if p.pos < len(p.toks) {
		return p.toks[p.pos]
	}
	return ""
}
func (p *g4p) next() string { t := p.peek(); p.pos++; return t }

func (p *g4p) parseAlts(end string) [][]elem {
	var alts [][]elem
	var cur []elem
	for {
		t := p.peek()
		if t == end || t == "" {
			alts = append(alts, cur)
			return alts
		}
		if t == "|" {
			p.next()
			alts = append(alts, cur)
			cur = nil
			continue
		}
		var e elem
		p.next()
		// label?
		if p.peek() == "=" {
			p.next()
			t = p.next()
		}
		switch {
		case t == "(":
			e = elem{kind: 3, alts: p.parseAlts(")")}
			p.next()
		case t[0] == '\'':
			e = elem{kind: 0, text: t[1 : len(t)-1]}
		case t[0] >= 'A' && t[0] <= 'Z':
			e = elem{kind: 1, text: t}
		default:
			e = elem{kind: 2, text: t}
		}
		if s := p.peek(); s == "?" || s == "*" || s == "+" {
			e.suffix = s[0]
			p.next()
		}
		cur = append(cur, e)
	}
}

func loadGrammar() *grammar {
	g := &grammar{rules: map[string][][]elem{}, tokens: map[string]string{}, minD: map[string]int{}}
	lex, _ := os.ReadFile("../../languages/java/JavaLexer.g4")
	re := regexp.MustCompile(`(?m)^([A-Z_]+):\s+'([^']+)';`)
	for _, m := range re.FindAllStringSubmatch(string(lex), -1) {
		g.tokens[m[1]] = m[2]
	}
	src, _ := os.ReadFile("../../languages/java/JavaParser.g4")
	s := string(src)
	s = s[strings.Index(s, "compilationUnit"):]
	p := &g4p{toks: tokenizeG4(s)}
	for p.peek() != "" {
		name := p.next()
		if p.next() != ":" {
			panic("expected : after " + name)
		}
		g.rules[name] = p.parseAlts(";")
		p.next()
	}
	// min depth fixpoint
	const inf = 1 << 20
	for r := range g.rules {
		g.minD[r] = inf
	}
	changed := true
	for changed {
		changed = false
		for r, alts := range g.rules {
			d := g.altsDepth(alts) + 1
			if d < g.minD[r] {
				g.minD[r] = d
				changed = true
			}
		}
	}
	return g
}

func (g *grammar) seqDepth(seq []elem) int {
	m := 0
	for _, e := range seq {
		if e.suffix == '?' || e.suffix == '*' {
			continue
		}
		d := 0
		switch e.kind {
		case 2:
			d = g.minD[e.text]
		case 3:
			d = g.altsDepth(e.alts)
		}
		if d > m {
			m = d
		}
	}
	return m
}

func (g *grammar) altsDepth(alts [][]elem) int {
	best := 1 << 20
	for _, a := range alts {
		if d := g.seqDepth(a); d < best {
			best = d
		}
	}
	return best
}

var idents = []string{"a", "b", "x", "Foo", "Bar", "T", "Override", "RestController", "Controller", "RequestMapping", "GetMapping", "PostMapping", "RequestBody", "value", "method", "ServiceMethod", "变量", "Ünï", "$", "_x", "String", "List", "super1", "X"}
var strs = []string{`""`, `"a"`, `"/api"`, `"\""`, `"日本"`, `"// TODO"`, `"x.y"`}

func (g *grammar) tokenText(r *rand.Rand, name string) string {
	switch name {
	case "IDENTIFIER":
		return idents[r.Intn(len(idents))]
	case "DECIMAL_LITERAL":
		return []string{"0", "1", "42", "1_0", "7L"}[r.Intn(5)]
	case "HEX_LITERAL":
		return "0x1F"
	case "OCT_LITERAL":
		return "017"
	case "BINARY_LITERAL":
		return "0b101"
	case "FLOAT_LITERAL":
		return []string{"1.0", ".5", "1e3", "2f"}[r.Intn(4)]
	case "HEX_FLOAT_LITERAL":
		return "0x1p3"
	case "CHAR_LITERAL":
		return []string{"'a'", `'\n'`, `'\''`, "'Z'"}[r.Intn(4)]
	case "STRING_LITERAL":
		return strs[r.Intn(len(strs))]
	case "BOOL_LITERAL":
		return []string{"true", "false"}[r.Intn(2)]
	case "NULL_LITERAL":
		return "null"
	case "TEXT_BLOCK":
		return "\"\"\"\n x \"\"\""
	case "EOF":
		return ""
	}
	if t, ok := g.tokens[name]; ok {
		return t
	}
	panic("unknown token " + name)
}

func (g *grammar) genAlts(r *rand.Rand, alts [][]elem, budget int, out *[]string) {
	if len(alts) == 16 && alts[0][0].text == "IDENTIFIER" && r.Intn(100) < 90 {
		*out = append(*out, g.tokenText(r, "IDENTIFIER"))
		return
	}
	// candidates within budget
	var cands []int
	for i, a := range alts {
		if g.seqDepth(a) <= budget {
			cands = append(cands, i)
		}
	}
	if len(cands) == 0 {
		best, bi := 1<<20, 0
		for i, a := range alts {
			if d := g.seqDepth(a); d < best {
				best, bi = d, i
			}
		}
		cands = []int{bi}
	}
	g.genSeq(r, alts[cands[r.Intn(len(cands))]], budget, out)
}

func (g *grammar) genSeq(r *rand.Rand, seq []elem, budget int, out *[]string) {
	for _, e := range seq {
		n := 1
		switch e.suffix {
		case '?':
			n = r.Intn(2)
		case '*':
			n = []int{0, 0, 1, 1, 2, 3}[r.Intn(6)]
		case '+':
			n = 1 + []int{0, 0, 1, 2}[r.Intn(4)]
		}
		if e.suffix == '?' || e.suffix == '*' {
			// can we afford?
			d := 0
			if e.kind == 2 {
				d = g.minD[e.text]
			} else if e.kind == 3 {
				d = g.altsDepth(e.alts)
			}
			if d > budget {
				n = 0
			}
		}
		for i := 0; i < n; i++ {
			switch e.kind {
			case 0:
				*out = append(*out, e.text)
			case 1:
				*out = append(*out, g.tokenText(r, e.text))
			case 2:
				g.genAlts(r, g.rules[e.text], budget-1, out)
			case 3:
				g.genAlts(r, e.alts, budget, out)
			}
		}
	}
}

func (g *grammar) gen(r *rand.Rand, rule string, budget int) string {
	var out []string
	g.genAlts(r, g.rules[rule], budget, &out)
	return strings.Join(out, " ")
}

func TestGen(t *testing.T) {
	g := loadGrammar()
	seed := int64(1)
	if s := os.Getenv("C09SEED"); s != "" {
		fmt.Sscan(s, &seed)
	}
	n := 3000
	if s := os.Getenv("C09N"); s != "" {
		fmt.Sscan(s, &n)
	}
	r := rand.New(rand.NewSource(seed))
	validN := 0
	seen := map[string]bool{}
	for i := 0; i < n; i++ {
		budget := 8 + r.Intn(14)
		code := g.genTemplate(r, budget)
		if len(code) > 6000 {
			continue
		}
		ok, _ := valid(code)
		if !ok && os.Getenv("C09INV") == "" {
			continue
		}
		validN++
		for _, res := range runAll(code) {
			key := res.pass + "|" + res.panic
			if seen[key] {
				continue
			}
			seen[key] = true
			t.Errorf("pass=%s panic=%s\nCODE: %s", res.pass, res.panic, code)
		}
	}
	t.Logf("valid %d of %d", validN, n)
}

func TestGenSample(t *testing.T) {
	g := loadGrammar()
	r := rand.New(rand.NewSource(5))
	tot := 0
	for i := 0; i < 200; i++ {
		code := g.gen(r, "compilationUnit", 8+r.Intn(14))
		tot += len(code)
		if i < 12 {
			ok, why := valid(code)
			t.Logf("%v %s\n%s", ok, why, code)
		}
	}
	t.Logf("avg len %d", tot/200)
}

func (g *grammar) genTemplate(r *rand.Rand, budget int) string {
	hdr := []string{"", "package a.b;", "package a; import a.Foo; import x.y.Bar; import static a.b.*;"}[r.Intn(3)]
	ann := ""
	if r.Intn(2) == 0 {
		ann = "@RestController " + g.gen(r, "annotation", 6) + " "
	}
	switch r.Intn(8) {
	case 0:
		return g.gen(r, "compilationUnit", budget)
	case 1:
		return hdr + ann + "class Foo extends Bar implements X { " + g.gen(r, "classBodyDeclaration", budget) + " " + g.gen(r, "classBodyDeclaration", budget) + " }"
	case 2:
		return hdr + ann + "class Foo { " + g.gen(r, "annotation", 6) + " void f ( Foo a ) { " + g.gen(r, "blockStatement", budget) + " " + g.gen(r, "blockStatement", budget) + " } }"
	case 3:
		return hdr + ann + "class Foo { Object o = " + g.gen(r, "expression", budget) + " ; void f ( ) { x = " + g.gen(r, "expression", budget) + " ; return " + g.gen(r, "expression", budget) + " ; } }"
	case 4:
		return hdr + ann + "interface Foo { " + g.gen(r, "interfaceBodyDeclaration", budget) + " " + g.gen(r, "interfaceBodyDeclaration", budget) + " }"
	case 5:
		return hdr + g.gen(r, "typeDeclaration", budget) + " " + g.gen(r, "typeDeclaration", budget)
	case 6:
		return hdr + ann + "class Foo implements Bar { " + g.gen(r, "modifier", 6) + " " + g.gen(r, "methodDeclaration", budget) + " " + g.gen(r, "modifier", 6) + " " + g.gen(r, "fieldDeclaration", budget) + " }"
	default:
		return hdr + "enum E { A ; " + g.gen(r, "classBodyDeclaration", budget) + " } " + g.gen(r, "recordDeclaration", budget) + " " + g.gen(r, "annotationTypeDeclaration", budget)
	}
}
