package unused

import (
	"fmt"
	"io/ioutil"
	"os"
	"path/filepath"
	"strings"
	"testing"
)

// C09: a layout-only rewrite of a valid compilation unit (two import declarations on one
// physical line, both unused) makes the refactoring scan (Analysis + Refactoring, exactly
// what `coca refactor -m ... -p ...` runs) panic with "slice bounds out of range [:-1]".
func TestDefect_C09_UnusedImportsOnOneLine(t *testing.T) {
	dir, err := ioutil.TempDir("", "c09-sameline")
	if err != nil {
		t.Fatal(err)
	}
	defer os.RemoveAll(dir)

	// semantically the same unit as
	//   import java.util.List;
	//   import java.util.Map;
	//   public class Demo { ... }
	source := "import java.util.List; import java.util.Map;\n" +
		"public class Demo {\n" +
		"    public int size() { return 0; }\n" +
		"}\n"
	file := filepath.Join(dir, "Demo.java")
	if err := ioutil.WriteFile(file, []byte(source), 0644); err != nil {
		t.Fatal(err)
	}

	var panicked interface{}
	func() {
		defer func() { panicked = recover() }()
		app := NewRemoveUnusedImportApp(dir)
		results := app.Analysis()
		if len(results) != 1 || results[0].Name != "Demo" {
			t.Fatalf("unexpected scan result: %+v", results)
		}
		app.Refactoring(results)
	}()

	if panicked != nil {
		t.Fatalf("refactoring scan panicked on a valid compilation unit: %v", fmt.Sprint(panicked))
	}

	out, _ := ioutil.ReadFile(file)
	if !strings.Contains(string(out), "public class Demo") {
		t.Fatalf("class declaration lost, file is now:\n%s", out)
	}
}
