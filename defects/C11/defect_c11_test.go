package tbs

import (
	"fmt"
	"os"
	"path/filepath"
	"sort"
	"strings"
	"testing"

	"github.com/modernizing/coca/pkg/adapter/cocafile"
	"github.com/modernizing/coca/pkg/application/analysis/javaapp"
	"github.com/modernizing/coca/pkg/domain/core_domain"
)

// c11Analyse writes the given tree below a fresh temporary directory and runs the
// same pipeline as `coca tbs` (cmd/tbs.go): select the test files, identify, full
// analysis, TbsApp.AnalysisPath. (The identifiers are computed directly instead of
// through cmd_util.LoadTestIdentify, which would read a stale coca_reporter cache.)
// The findings are returned as sorted strings "Type relative/file:line".
func c11Analyse(t *testing.T, tree map[string]string) (findings []string, panicked interface{}) {
	t.Helper()
	dir := t.TempDir()
	for name, src := range tree {
		p := filepath.Join(dir, filepath.FromSlash(name))
		if err := os.MkdirAll(filepath.Dir(p), 0o755); err != nil {
			t.Fatal(err)
		}
		if err := os.WriteFile(p, []byte(src), 0o644); err != nil {
			t.Fatal(err)
		}
	}

	defer func() {
		if r := recover(); r != nil {
			panicked = r
		}
	}()

	files := cocafile.GetJavaTestFiles(dir)
	identApp := javaapp.NewJavaIdentifierApp()
	identifiers := identApp.AnalysisFiles(files)
	identifiersMap := core_domain.BuildIdentifierMap(identifiers)
	fullApp := javaapp.NewJavaFullApp()
	classNodes := fullApp.AnalysisFiles(identifiers, files)

	for _, r := range NewTbsApp().AnalysisPath(classNodes, identifiersMap) {
		rel, err := filepath.Rel(dir, r.FileName)
		if err != nil {
			rel = r.FileName
		}
		findings = append(findings, fmt.Sprintf("%s %s:%d", r.Type, filepath.ToSlash(rel), r.Line))
	}
	sort.Strings(findings)
	return findings, nil
}

func c11Expect(t *testing.T, got []string, panicked interface{}, want []string) {
	t.Helper()
	if panicked != nil {
		t.Fatalf("analysis panicked: %v", panicked)
	}
	sort.Strings(want)
	if strings.Join(got, "\n") != strings.Join(want, "\n") {
		t.Errorf("findings differ from what the sources evidence\n got: %q\nwant: %q", got, want)
	}
}

// Defect 1: a test method whose body makes exactly ONE call (here: one assertion)
// is reported as EmptyTest although "EmptyTest if its body makes no call".
func TestDefect_C11_EmptyTestOnSingleCall(t *testing.T) {
	got, p := c11Analyse(t, map[string]string{
		"SingleCallTest.java": `package p;

import org.junit.Test;
import static org.junit.Assert.assertTrue;

public class SingleCallTest {
    @Test
    public void oneAssertionOnly() {
        assertTrue(true);
    }

    @Test
    public void reallyEmpty() {
    }
}
`})
	// only reallyEmpty (declared on line 13) is empty; oneAssertionOnly (line 8) makes a call, which is an assertion
	c11Expect(t, got, p, []string{"EmptyTest SingleCallTest.java:13"})
}

// Defect 2: only the FIRST annotation of a method reaches the code model, so with
// @Test and @Ignore together the second one is lost:
//   - "@Test @Ignore"  -> IgnoreTest is missing
//   - "@Ignore @Test" on an empty body -> EmptyTest is missing
func TestDefect_C11_TestAndIgnoreTogether(t *testing.T) {
	got, p := c11Analyse(t, map[string]string{
		"TestFirstTest.java": `package p;

import org.junit.Ignore;
import org.junit.Test;
import static org.junit.Assert.assertEquals;

public class TestFirstTest {
    @Test
    @Ignore
    public void testThenIgnore() {
        int a = compute();
        assertEquals(1, a);
    }

    private int compute() { return 1; }
}
`,
		"IgnoreFirstTest.java": `package p;

import org.junit.Ignore;
import org.junit.Test;

public class IgnoreFirstTest {
    @Ignore
    @Test
    public void ignoreThenTestEmptyBody() {
    }
}
`})
	c11Expect(t, got, p, []string{
		"IgnoreTest TestFirstTest.java:0",
		"IgnoreTest IgnoreFirstTest.java:0",
		"EmptyTest IgnoreFirstTest.java:9",
	})
}

// Defect 3: the assertion lives in a helper of the same class; called as
// "this.ensureOne(a)" instead of "ensureOne(a)" the helper is not inlined and the
// test is reported as UnknownTest.
func TestDefect_C11_HelperCalledThroughThis(t *testing.T) {
	got, p := c11Analyse(t, map[string]string{
		"src/test/java/p/HelperTest.java": `package p;

import org.junit.Test;
import static org.junit.Assert.assertEquals;

public class HelperTest {
    @Test
    public void plainHelperCall() {
        int a = compute();
        ensureOne(a);
    }

    @Test
    public void helperCallThroughThis() {
        int a = compute();
        this.ensureOne(a);
    }

    private void ensureOne(int a) {
        assertEquals(1, a);
        record(a);
    }

    private int compute() { return 1; }

    private void record(int a) { }
}
`})
	// both tests assert through the same-class helper: nothing to report
	c11Expect(t, got, p, nil)
}

// Defect 4: a conventional test class whose file name happens to contain the
// substring "testData" (LatestDataTest.java) is silently dropped from the test
// files, so none of its smells is reported. TwinTest.java has the same body and is
// reported.
func TestDefect_C11_TestClassDroppedBySubstring(t *testing.T) {
	body := func(name string) string {
		return `package p;

import org.junit.Test;
import static org.junit.Assert.assertEquals;

public class ` + name + ` {
    @Test
    public void sleeps() throws Exception {
        Thread.sleep(10);
        System.out.println("done");
        assertEquals(1, 2);
    }
}
`
	}
	got, p := c11Analyse(t, map[string]string{
		"src/test/java/p/TwinTest.java":       body("TwinTest"),
		"src/test/java/p/LatestDataTest.java": body("LatestDataTest"),
		"src/main/java/p/Latest.java":         "package p;\npublic class Latest { void run() throws Exception { Thread.sleep(1); System.out.println(1); } }\n",
	})
	c11Expect(t, got, p, []string{
		"SleepyTest src/test/java/p/TwinTest.java:9",
		"RedundantPrintTest src/test/java/p/TwinTest.java:10",
		"SleepyTest src/test/java/p/LatestDataTest.java:9",
		"RedundantPrintTest src/test/java/p/LatestDataTest.java:10",
	})
}
