package cmd

// Defect demonstrations for PROPERTY C16 (per-directory line counts / top-file report).
// Copy to: cmd/c16_defect_test.go
// Run:     go test -vet=off -count=1 ./cmd/ -run TestDefect_C16

import (
	"bytes"
	"encoding/csv"
	"fmt"
	"io/ioutil"
	"os"
	"path/filepath"
	"strconv"
	"strings"
	"testing"

	"github.com/boyter/scc/processor"
)

// c16Write writes a source file with exactly `code` code lines, one comment line and two blank lines.
func c16Write(t *testing.T, root, rel string, code int) {
	t.Helper()
	p := filepath.Join(root, filepath.FromSlash(rel))
	if err := os.MkdirAll(filepath.Dir(p), 0755); err != nil {
		t.Fatal(err)
	}
	ext := strings.TrimPrefix(filepath.Ext(rel), ".")
	var sb strings.Builder
	switch ext {
	case "py", "rb":
		sb.WriteString("# comment\n")
	default:
		sb.WriteString("// comment\n")
	}
	for i := 0; i < code; i++ {
		switch ext {
		case "py", "rb":
			sb.WriteString(fmt.Sprintf("x%d = %d\n", i, i))
		case "go":
			sb.WriteString(fmt.Sprintf("var x%d = %d\n", i, i))
		default:
			sb.WriteString(fmt.Sprintf("int x%d = %d;\n", i, i))
		}
	}
	sb.WriteString("\n\n")
	if err := ioutil.WriteFile(p, []byte(sb.String()), 0644); err != nil {
		t.Fatal(err)
	}
}

// c16Setup moves the process into a fresh temporary working directory (so that coca_reporter/ is
// created there), resets the process-global counter options to the command's defaults and returns
// the buffer that receives the report.
func c16Setup(t *testing.T) (string, *bytes.Buffer, func()) {
	t.Helper()
	wd, err := os.Getwd()
	if err != nil {
		t.Fatal(err)
	}
	tmp, err := ioutil.TempDir("", "c16")
	if err != nil {
		t.Fatal(err)
	}
	tmp, _ = filepath.EvalSymlinks(tmp)
	if err := os.Chdir(tmp); err != nil {
		t.Fatal(err)
	}
	_ = os.MkdirAll(filepath.Join("coca_reporter", "cloc"), 0755)

	processor.AllowListExtensions = []string{}
	processor.PathDenyList = []string{".git", ".hg", ".svn"}
	processor.Files = false
	processor.Format = "tabular"
	clocConfig.TopSizes = 30

	buf := new(bytes.Buffer)
	output = buf
	return tmp, buf, func() { _ = os.Chdir(wd); _ = os.RemoveAll(tmp) }
}

// c16Guard runs f and converts a panic into a test failure.
func c16Guard(t *testing.T, f func()) {
	t.Helper()
	defer func() {
		if r := recover(); r != nil {
			t.Fatalf("panic: %v", r)
		}
	}()
	f()
}

// D1: a tree with six languages - the top-file report is empty.
func TestDefect_C16_TopFileMoreThanFiveLanguages(t *testing.T) {
	_, buf, done := c16Setup(t)
	defer done()

	files := map[string]string{ // language -> file
		"Java":       "src/A.java",
		"Go":         "src/b.go",
		"Python":     "src/c.py",
		"Ruby":       "src/d.rb",
		"C":          "src/e.c",
		"JavaScript": "src/f.js",
	}
	n := 3
	for _, rel := range files {
		c16Write(t, "tree", rel, n)
		n++
	}

	clocConfig.TopSizes = 10
	c16Guard(t, func() { processTopFile("tree") })
	out := buf.String()

	for lang, rel := range files {
		if !strings.Contains(out, "Language: "+lang) {
			t.Errorf("top-file report has no section for language %s", lang)
		}
		if !strings.Contains(out, filepath.Base(rel)) {
			t.Errorf("top-file report does not list %s", rel)
		}
	}
	if t.Failed() {
		t.Logf("report was:\n%q", out)
	}
}

// D2: the location column is produced with strings.TrimLeft(location, dir), which treats dir as a
// character set: two different files become the same location.
func TestDefect_C16_TopFileLocationMangled(t *testing.T) {
	_, buf, done := c16Setup(t)
	defer done()

	c16Write(t, "tree", "ee/Tree.java", 7)
	c16Write(t, "tree", "tt/Tree.java", 3)

	clocConfig.TopSizes = 10
	c16Guard(t, func() { processTopFile("tree/") })
	out := buf.String()

	var rows [][]string // length, complexity, location
	for _, line := range strings.Split(out, "\n") {
		cells := strings.Split(line, "|")
		if len(cells) < 5 {
			continue
		}
		if _, err := strconv.Atoi(strings.TrimSpace(cells[1])); err != nil {
			continue
		}
		rows = append(rows, []string{strings.TrimSpace(cells[1]), strings.TrimSpace(cells[2]), strings.TrimSpace(cells[3])})
	}
	if len(rows) != 2 {
		t.Fatalf("expected two file rows, got %v\n%s", rows, out)
	}
	if rows[0][0] != "7" || rows[1][0] != "3" {
		t.Errorf("rows are not 7 then 3: %v", rows)
	}
	if !strings.HasSuffix(rows[0][2], "ee/Tree.java") {
		t.Errorf("the 7-line file is tree/ee/Tree.java, the report names it %q", rows[0][2])
	}
	if !strings.HasSuffix(rows[1][2], "tt/Tree.java") {
		t.Errorf("the 3-line file is tree/tt/Tree.java, the report names it %q", rows[1][2])
	}
	if rows[0][2] == rows[1][2] {
		t.Errorf("two different files are listed under the same location %q", rows[0][2])
	}
}

func c16ParseReport(t *testing.T, out string) (header []string, rows map[string][]string) {
	t.Helper()
	r := csv.NewReader(strings.NewReader(out))
	r.FieldsPerRecord = -1
	records, err := r.ReadAll()
	if err != nil {
		t.Fatalf("report is not CSV: %v\n%s", err, out)
	}
	if len(records) == 0 {
		t.Fatalf("empty report")
	}
	rows = map[string][]string{}
	for _, rec := range records[1:] {
		if _, dup := rows[rec[0]]; dup {
			t.Errorf("two rows named %q", rec[0])
		}
		rows[rec[0]] = rec
	}
	return records[0], rows
}

// D3: an immediate subdirectory whose name merely ends in ".git" (".hg", ".svn") is left out of the
// whole-tree count (the counter's deny list is a path-suffix test) but still gets a row, because the
// row filter is an exact-name test and the counter never applies the deny list to its root.
func TestDefect_C16_DirNameEndingInDotGit(t *testing.T) {
	_, buf, done := c16Setup(t)
	defer done()

	c16Write(t, "tree", "app/A.java", 5)
	c16Write(t, "tree", "mirror.git/M.java", 2)
	c16Write(t, "tree", "mirror.git/m.rb", 11)

	c16Guard(t, func() { processByDirectory("tree") })
	header, rows := c16ParseReport(t, buf.String())

	row, ok := rows["mirror.git"]
	if !ok {
		// also acceptable: the directory is treated as a VCS directory everywhere (no row)
		return
	}
	col := map[string]int{}
	for i, h := range header {
		col[h] = i
	}
	if _, ok := col["Ruby"]; !ok {
		t.Errorf("mirror.git has a row and contains 11 lines of Ruby, but the header %v does not name Ruby", header)
	} else if row[col["Ruby"]] != "11" {
		t.Errorf("mirror.git Ruby figure = %s, want 11", row[col["Ruby"]])
	}
	if row[1] != "13" {
		t.Errorf("mirror.git holds 2 Java + 11 Ruby = 13 code lines, the row says summary=%s (row %v, header %v)", row[1], row, header)
	}
}

// D4: the printed report joins the cells with "," without quoting, so a directory whose name
// contains a comma yields a row with one cell too many (the cloc.csv file is quoted correctly).
func TestDefect_C16_CommaInDirectoryName(t *testing.T) {
	_, buf, done := c16Setup(t)
	defer done()

	c16Write(t, "tree", "a,b/B.java", 7)
	c16Write(t, "tree", "c/C.java", 3)

	c16Guard(t, func() { processByDirectory("tree") })
	out := buf.String()
	header, rows := c16ParseReport(t, out)

	if len(rows) != 2 {
		t.Errorf("expected 2 rows, got %d", len(rows))
	}
	for name, row := range rows {
		if len(row) != len(header) {
			t.Errorf("row %q has %d cells, header has %d: %v", name, len(row), len(header), row)
		}
	}
	row, ok := rows["a,b"]
	if !ok {
		t.Errorf("no row for directory \"a,b\"; report:\n%s", out)
	} else if len(row) < 3 || row[1] != "7" || row[2] != "7" {
		t.Errorf("row for \"a,b\" = %v, want [a,b 7 7]", row)
	}
}
