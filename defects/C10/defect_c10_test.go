package bs

import (
	"fmt"
	"os"
	"path/filepath"
	"strings"
	"testing"

	"github.com/modernizing/coca/pkg/domain/bs_domain"
)

// c10Analyse writes one Java source file into a fresh temp dir, runs the real
// bad-smell pipeline (AnalysisPath + IdentifyBadSmell, nothing ignored) on it and
// returns the findings. A panic inside the pipeline is reported as a test failure.
func c10Analyse(t *testing.T, fileName, src string) (file string, findings []bs_domain.BadSmellModel) {
	t.Helper()
	dir := t.TempDir()
	file = filepath.Join(dir, fileName)
	if err := os.WriteFile(file, []byte(src), 0644); err != nil {
		t.Fatal(err)
	}
	defer func() {
		if r := recover(); r != nil {
			t.Fatalf("bad-smell analysis panicked on %s: %v", fileName, r)
		}
	}()
	app := NewBadSmellApp()
	nodes := app.AnalysisPath(file)
	findings = app.IdentifyBadSmell(nodes, nil)
	return file, findings
}

func c10OfKind(findings []bs_domain.BadSmellModel, kind string) []bs_domain.BadSmellModel {
	var out []bs_domain.BadSmellModel
	for _, f := range findings {
		if f.Bs == kind {
			out = append(out, f)
		}
	}
	return out
}

// Defect 1: a trailing varargs parameter is not counted as a parameter, so a method
// with 6 parameters (5 plain + 1 varargs) is not reported as longParameterList.
func TestDefect_C10_VarargsParam(t *testing.T) {
	src := `package demo;

public class Formatter {
    public String plain(String a, String b, String c, String d, String e, Object f) {
        return a;
    }

    public String format(String a, String b, String c, String d, String e, Object... rest) {
        return a;
    }
}
`
	file, findings := c10Analyse(t, "Formatter.java", src)
	got := c10OfKind(findings, SMELL_LONG_PARAMETER_LIST)

	// control: the 6-parameter method without varargs (line 4) must be (and is) reported
	// property: the 6-parameter method whose last parameter is varargs (line 8) must be reported too
	wantLines := map[string]bool{"4": true, "8": true}
	gotLines := map[string]bool{}
	for _, f := range got {
		gotLines[f.Line] = true
		if f.File != file {
			t.Errorf("finding names file %q, want %q", f.File, file)
		}
		if f.Size != 6 {
			t.Errorf("longParameterList at line %s has size %d, want 6", f.Line, f.Size)
		}
	}
	for l := range wantLines {
		if !gotLines[l] {
			t.Errorf("method starting at line %s has 6 parameters (> 5) but no longParameterList finding; got findings %+v", l, got)
		}
	}
	if len(got) != 2 {
		t.Errorf("want exactly 2 longParameterList findings, got %d", len(got))
	}
}

// Defect 2: top-level switch statements written in the arrow form (Java 14+, accepted by
// the bundled Java 17 grammar) are not counted, so a method with 8 of them is not
// reported as repeatedSwitches, whereas the same method with colon-form switches is.
func TestDefect_C10_ArrowSwitch(t *testing.T) {
	build := func(cls string, arrow bool) string {
		var sb strings.Builder
		sb.WriteString("package demo;\n\npublic class " + cls + " {\n    public void dispatch(int a) {\n")
		for i := 0; i < 8; i++ {
			if arrow {
				sb.WriteString(fmt.Sprintf("        switch (a) { case %d -> System.out.println(1); default -> System.out.println(2); }\n", i))
			} else {
				sb.WriteString(fmt.Sprintf("        switch (a) { case %d: System.out.println(1); break; default: System.out.println(2); }\n", i))
			}
		}
		sb.WriteString("    }\n}\n")
		return sb.String()
	}

	check := func(cls string, arrow bool) {
		file, findings := c10Analyse(t, cls+".java", build(cls, arrow))
		got := c10OfKind(findings, SMELL_REPEATED_SWITCHES)
		if len(got) != 1 {
			t.Errorf("%s (arrow=%v): method has 8 top-level switch statements, want exactly 1 repeatedSwitches finding, got %d (all findings: %+v)", cls, arrow, len(got), findings)
			return
		}
		if got[0].File != file || got[0].Line != "4" || got[0].Size != 8 {
			t.Errorf("%s: finding %+v, want file %s line 4 size 8", cls, got[0], file)
		}
	}
	check("ColonSwitches", false) // control, passes
	check("ArrowSwitches", true)  // fails: arrow-form switches are invisible
}

// Defect 3: bodies of interface (default) methods are never inspected for top-level
// if/switch statements, so neither repeatedSwitches nor complexCondition is ever reported
// for an interface, although longMethod / longParameterList are.
func TestDefect_C10_InterfaceDefaultMethod(t *testing.T) {
	var sb strings.Builder
	sb.WriteString("package demo;\n\npublic interface Validator {\n    default int validate(int a) {\n") // method starts on line 4
	for i := 0; i < 8; i++ {                                                                             // lines 5..12
		sb.WriteString(fmt.Sprintf("        if (a == %d) return %d;\n", i, i))
	}
	// condition spanning 4 lines, starting on line 13
	sb.WriteString("        if (a > 100\n            && a < 200\n            && a != 150\n            && a != 151) {\n            return -1;\n        }\n")
	sb.WriteString("        return 0;\n    }\n}\n")

	file, findings := c10Analyse(t, "Validator.java", sb.String())

	rs := c10OfKind(findings, SMELL_REPEATED_SWITCHES)
	if len(rs) != 1 {
		t.Errorf("interface default method has 9 top-level if statements: want exactly 1 repeatedSwitches finding, got %d (all findings: %+v)", len(rs), findings)
	} else if rs[0].File != file || rs[0].Line != "4" || rs[0].Size != 9 {
		t.Errorf("repeatedSwitches finding %+v, want file %s line 4 size 9", rs[0], file)
	}

	cc := c10OfKind(findings, SMELL_COMPLEX_CONDITION)
	if len(cc) != 1 {
		t.Errorf("interface default method has a top-level if condition spanning 4 lines: want exactly 1 complexCondition finding, got %d (all findings: %+v)", len(cc), findings)
	} else if cc[0].File != file || cc[0].Line != "13" {
		t.Errorf("complexCondition finding %+v, want file %s line 13", cc[0], file)
	}
}

// Defect 4: every method whose name merely starts with the letters "get"/"set" is
// treated as a getter/setter (setup, settle, getaway ...). A class with 20 such ordinary
// methods is reported as dataClass and not as largeClass.
func TestDefect_C10_GetSetPrefix(t *testing.T) {
	var sb strings.Builder
	sb.WriteString("package demo;\n\npublic class Ledger {\n    private int total;\n")
	names := []string{"setup", "settle", "getaway", "settleAll"}
	n := 0
	for n < 20 {
		name := names[n%len(names)]
		if n >= len(names) {
			name = fmt.Sprintf("%s%d", name, n) // setup4, settle5, ... still not accessors
		}
		sb.WriteString(fmt.Sprintf("    public void %s() { total++; }\n", name))
		n++
	}
	sb.WriteString("}\n")

	file, findings := c10Analyse(t, "Ledger.java", sb.String())

	if dc := c10OfKind(findings, SMELL_DATA_CLASS); len(dc) != 0 {
		t.Errorf("class has 20 methods, none of which is a getter or setter, yet it is reported as dataClass: %+v", dc)
	}
	lc := c10OfKind(findings, SMELL_LARGE_CLASS)
	if len(lc) != 1 {
		t.Errorf("class has 20 methods that are not getters/setters: want exactly 1 largeClass finding, got %d (all findings: %+v)", len(lc), findings)
	} else if lc[0].File != file || lc[0].Size != 20 {
		t.Errorf("largeClass finding %+v, want file %s size 20", lc[0], file)
	}
}
